------------------------------- MODULE Phases -------------------------------
(***************************************************************************)
(* The event loop and its dispatch phases (properties C03, C05, C16).      *)
(*                                                                         *)
(* runLoop takes one line at a time from the in queue and dispatches it:   *)
(*   IntPhase(k)  internal handlers (state tracking: the tracker now        *)
(*                reflects line k; for the welcome line 001 the CONNECTED   *)
(*                event is dispatched from inside this phase),              *)
(*   BgSpawn(k)   the background dispatch is started - its handlers run     *)
(*                whenever they like, concurrently with everything later,   *)
(*   FgBegin(k)   every foreground handler for the line is started,         *)
(*   FgEnd(k)     ... and waited for; only then is the next line taken.     *)
(* Handlers may return, panic (the configured recovery function is called) *)
(* or - background only - never return.  A disconnect can begin at any     *)
(* time: lines not dispatched yet may be discarded, DISCONNECTED is         *)
(* dispatched after the loop has left.                                      *)
(*                                                                         *)
(* The observation variables (act, applied, lastFg, ...) and the property  *)
(* predicates over them are shared with PhasesTrace.tla, which evaluates   *)
(* the same predicates on handler events recorded from the real client.    *)
(* Defect switches (each must make TLC report a violation):                *)
(*   BgBeforeInt  background dispatch started before the internal phase     *)
(*   LoopLeavesEarly  on cancellation the loop stops waiting for the       *)
(*                foreground handlers of the line in progress               *)
(*   NoRecover    a panicking handler's panic is not handed to Recover      *)
(***************************************************************************)
EXTENDS Naturals, Sequences, FiniteSets, TLC

CONSTANTS
  NLines,       \* lines 1..NLines are sent by the server
  Welcome,      \* index of the 001 line (0: none)
  FgH, BgH,     \* foreground / background handler names registered for every line
  Outcomes,     \* subset of {"ret", "panic", "block"} a handler invocation may have
  BgBeforeInt, LoopLeavesEarly, NoRecover

VARIABLES
  pc,        \* "idle" | "int" | "conn" | "spawned" | "fg" | "left"
  cur,       \* line being dispatched
  applied,   \* last line whose internal phase has completed (what the tracker reflects)
  bgPending, \* lines whose background dispatch has been started but has not begun yet
  act,       \* running invocations [kind, h, k]  (kind "fg" | "bg" | "conn")
  fin,       \* finished invocations
  blocked,   \* background invocations that never return
  seen,      \* [invocation -> applied when it started]
  panics, recovered,
  closing,   \* a disconnect has begun
  disc,      \* "no" | "running" | "done": DISCONNECTED dispatch
  discOverlap \* observation: a foreground invocation was running when DISCONNECTED started

vars == <<pc, cur, applied, bgPending, act, fin, blocked, seen, panics, recovered, closing, disc, discOverlap>>

Inv(kind, h, k) == [kind |-> kind, h |-> h, k |-> k]
FgOf(k) == {Inv("fg", h, k) : h \in FgH}
BgOf(k) == {Inv("bg", h, k) : h \in BgH}
ConnOf == {Inv("conn", h, Welcome) : h \in FgH}

AllInvs == UNION {FgOf(n) \cup BgOf(n) : n \in 1..NLines} \cup ConnOf

Init ==
  /\ pc = "idle" /\ cur = 0 /\ applied = 0 /\ bgPending = {} /\ act = {} /\ fin = {} /\ blocked = {}
  /\ seen = <<>> /\ panics = 0 /\ recovered = 0 /\ closing = FALSE /\ disc = "no" /\ discOverlap = FALSE

Start(S) == /\ act' = act \cup S
            /\ seen' = [i \in DOMAIN seen \cup S |-> IF i \in S THEN applied' ELSE seen[i]]

\* take the next line (none is taken once the loop has noticed the disconnect)
Take ==
  /\ pc = "idle" /\ cur < NLines /\ ~closing
  /\ cur' = cur + 1
  /\ IF BgBeforeInt
       THEN pc' = "int" /\ bgPending' = bgPending \cup {cur + 1}
       ELSE pc' = "int" /\ bgPending' = bgPending
  /\ UNCHANGED <<applied, act, fin, blocked, seen, panics, recovered, closing, disc, discOverlap>>

\* internal phase: the tracker now reflects the line; 001 dispatches CONNECTED from here
IntPhase ==
  /\ pc = "int"
  /\ applied' = cur
  /\ IF cur = Welcome
       THEN pc' = "conn" /\ Start(ConnOf)
       ELSE pc' = "spawned" /\ UNCHANGED <<act, seen>>
  /\ UNCHANGED <<cur, bgPending, fin, blocked, panics, recovered, closing, disc, discOverlap>>
ConnDone ==
  /\ pc = "conn" /\ ConnOf \subseteq fin
  /\ pc' = "spawned"
  /\ UNCHANGED <<cur, applied, bgPending, act, fin, blocked, seen, panics, recovered, closing, disc, discOverlap>>
\* go bgHandlers.dispatch(...), then start the foreground handlers
FgBegin ==
  /\ pc = "spawned"
  /\ bgPending' = bgPending \cup {cur}
  /\ pc' = "fg" /\ applied' = applied /\ Start(FgOf(cur))
  /\ UNCHANGED <<cur, fin, blocked, panics, recovered, closing, disc, discOverlap>>
FgEnd ==
  /\ pc = "fg" /\ (FgOf(cur) \subseteq fin \/ (LoopLeavesEarly /\ closing))
  /\ pc' = "idle"
  /\ UNCHANGED <<cur, applied, bgPending, act, fin, blocked, seen, panics, recovered, closing, disc, discOverlap>>
\* the background dispatch of line k begins: its handlers start
BgBegin(k) ==
  /\ k \in bgPending
  /\ bgPending' = bgPending \ {k} /\ applied' = applied /\ Start(BgOf(k))
  /\ UNCHANGED <<pc, cur, fin, blocked, panics, recovered, closing, disc, discOverlap>>

\* a running handler finishes somehow
Finish(i, o) ==
  /\ i \in act /\ o \in Outcomes /\ i \notin blocked
  /\ (o = "block") => i.kind = "bg"
  /\ IF o = "block"
       THEN blocked' = blocked \cup {i} /\ UNCHANGED <<act, fin, panics, recovered>>
       ELSE /\ act' = act \ {i} /\ fin' = fin \cup {i} /\ blocked' = blocked
            /\ panics' = IF o = "panic" THEN panics + 1 ELSE panics
            /\ recovered' = IF o = "panic" /\ ~NoRecover THEN recovered + 1 ELSE recovered
  /\ UNCHANGED <<pc, cur, applied, bgPending, seen, closing, disc, discOverlap>>

\* something ends the connection
BeginClose ==
  /\ ~closing /\ closing' = TRUE
  /\ UNCHANGED <<pc, cur, applied, bgPending, act, fin, blocked, seen, panics, recovered, disc, discOverlap>>
\* the loop notices, leaves; DISCONNECTED is dispatched
LoopLeaves ==
  /\ closing /\ pc = "idle"
  /\ pc' = "left"
  /\ UNCHANGED <<cur, applied, bgPending, act, fin, blocked, seen, panics, recovered, closing, disc, discOverlap>>
Disconnected ==
  /\ pc = "left" /\ disc = "no"
  /\ disc' = "done"
  /\ discOverlap' = (\E i \in act : i.kind \in {"fg", "conn"})
  /\ UNCHANGED <<pc, cur, applied, bgPending, act, fin, blocked, seen, panics, recovered, closing>>

Next == Take \/ IntPhase \/ ConnDone \/ FgBegin \/ FgEnd \/ BeginClose \/ LoopLeaves \/ Disconnected
        \/ (\E k \in 1..NLines : BgBegin(k))
        \/ (\E i \in act, o \in Outcomes : Finish(i, o))

Fair == WF_vars(Take) /\ WF_vars(IntPhase) /\ WF_vars(ConnDone) /\ WF_vars(FgBegin) /\ WF_vars(FgEnd) /\ WF_vars(LoopLeaves)
        /\ WF_vars(Disconnected) /\ \A k \in 1..NLines : WF_vars(BgBegin(k))
        /\ \A i \in AllInvs : WF_vars(Finish(i, "ret") \/ Finish(i, "panic"))
Spec == Init /\ [][Next]_vars /\ Fair

-----------------------------------------------------------------------------
(* The property predicates over the observation variables *)

\* C03: foreground handlers of one line at a time, in wire order
OneLineAtATime == \A i, j \in act : (i.kind = "fg" /\ j.kind = "fg") => i.k = j.k
InOrder == \A i \in act, j \in fin : (i.kind = "fg" /\ j.kind = "fg") => j.k <= i.k
\* C03: CONNECTED after 001 has been applied and before any later line
ConnectedPlacement ==
  \A i \in DOMAIN seen : i.kind = "conn" =>
     /\ seen[i] >= Welcome
     /\ \A j \in DOMAIN seen : (j.kind = "fg" /\ j.k > Welcome) => i \in fin
\* C03: DISCONNECTED only after every foreground invocation has finished
DiscAfterFg == ~discOverlap
\* C05: state tracking is applied before user handlers observe a line, and a foreground
\* handler never sees a later line applied
AppliedBeforeHandlers ==
  \A i \in DOMAIN seen : /\ (i.kind = "fg") => seen[i] = i.k
                         /\ (i.kind = "bg") => seen[i] >= i.k
FgSeesNothingLater == \A i \in act : i.kind = "fg" => applied = i.k
\* C16: every panic reaches the recovery function ...
PanicsRecovered == recovered = panics
\* ... each handler runs at most once per line ...
ExactlyOnce == act \cap fin = {}
\* ... and (liveness) a misbehaving handler does not stop delivery: every line is dispatched
\* to every foreground handler unless a disconnect began
AllDelivered == <>(closing \/ (cur = NLines /\ pc = "idle" /\ \A k \in 1..NLines : FgOf(k) \subseteq fin))
=============================================================================
