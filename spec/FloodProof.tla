----------------------------- MODULE FloodProof -----------------------------
(***************************************************************************)
(* Unbounded proof (TLAPS) of the lemma behind C10's window bound: for     *)
(* EVERY history of sends - any line lengths 0..510, any idle gaps, any    *)
(* number of lines - the penalty of Flood.tla stays within                 *)
(*     0 <= b <= 10 s + the charge of the line being held (at most 750     *)
(* ticks), which TLC checks only for histories of at most MaxSends lines.  *)
(***************************************************************************)
EXTENDS Flood, TLAPS

ASSUME Universe == Lens \subseteq 0..510 /\ Gaps \subseteq Nat

IndInv ==
  /\ b \in Int /\ idle \in Int
  /\ 0 <= b /\ 0 <= idle /\ idle <= 750
  /\ b <= Threshold + idle        \* over the threshold only by what the pending sleep will pay off

LEMMA InitOK == Init => IndInv
  BY DEF Init, IndInv, Threshold

LEMMA StepOK == IndInv /\ [Next]_vars => IndInv'
<1> SUFFICES ASSUME IndInv, [Next]_vars PROVE IndInv'
  OBVIOUS
<1>1. CASE UNCHANGED vars
  BY <1>1 DEF vars, IndInv
<1>2. CASE Next
  <2> PICK n \in Lens, d \in Gaps : Send(n, d)
    BY <1>2 DEF Next
  <2> n \in 0..510 /\ d \in Nat
    BY Universe
  <2> QED
    BY DEF Send, IndInv, Max0, Charge, Threshold
<1> QED
  BY <1>1, <1>2

THEOREM Inductive == Spec => []IndInv
  BY InitOK, StepOK, PTL DEF Spec

THEOREM PenaltyBounds == Spec => [](NeverNegative /\ Bounded)
<1>1. IndInv => NeverNegative /\ Bounded
  BY DEF IndInv, NeverNegative, Bounded, Threshold
<1> QED
  BY <1>1, Inductive, PTL
=============================================================================
