SPECIFICATION Spec
CONSTANTS
  QCap = 1
  NIn = 1
  NOut = 0
  MaxGen = 2
  UserNames = {}
  SenderNames = {}
  NSend = 0
  Burst = TRUE
  AllowEOF = TRUE
  AllowCancel = FALSE
  AllowWErr = FALSE
  AllowStall = FALSE
  Reconnect = "other"
  ConnectWhileUp = FALSE
  HasPing = FALSE
  DrainOnce = FALSE
  StaleClose = FALSE
  NoWatcher = FALSE
  InitBeforeCheck = FALSE
  EarlyUnlock = FALSE
INVARIANTS TypeOK AtMostOneDisc RegisterOnce DiscSeesDisconnected NoCrash OwnClose ClosedForACause GoneAfterDisc WireOrdered AllWritten
PROPERTIES CloseReturns EndedGenDisconnects NoLeak
CHECK_DEADLOCK FALSE
