SPECIFICATION Spec
CONSTANTS
  AllowToggle <- Yes
  Users <- T_Users
  Chans <- T_Chans
  NickPool <- T_Pool
  MyNicks <- T_MyNicks
  MaxSteps = 60
  Privs <- S_Privs
  PrivSets <- S_PrivSets
INVARIANT TypeOK
ACTION_CONSTRAINT Emit
CHECK_DEADLOCK FALSE
