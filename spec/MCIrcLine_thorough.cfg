INIT Init
NEXT Next
CONSTANT Thorough = TRUE
INVARIANTS WF Emit
CHECK_DEADLOCK FALSE
