SPECIFICATION Spec
CONSTANTS
  Users <- Q_Users
  Chans <- Q_Chans
  NickPool <- Q_Pool
  MyNicks <- Q_MyNicks
  MaxSteps = 4
VIEW MCView
INVARIANT TypeOK
ACTION_CONSTRAINT Emit
CHECK_DEADLOCK FALSE
