------------------------------ MODULE OutTrace ------------------------------
(***************************************************************************)
(* C09 on recorded runs: each record holds, for one session that stayed    *)
(* up, the lines every sender handed to the client (in issue order) and    *)
(* the lines the server received (in wire order).  The predicates are the  *)
(* ones model-checked on Conn.tla (WireOrdered, AllWritten), restated over *)
(* the recorded data: the wire restricted to one sender is that sender's   *)
(* issue sequence, and the wire holds nothing else.                        *)
(***************************************************************************)
EXTENDS Naturals, Sequences, FiniteSets, TLC, TLCExt, Json

TraceLog == ndJsonDeserialize("trace.ndjson")
VARIABLE l

\* lines are records [s |-> sender, i |-> index, text |-> STRING]; the wire carries the text,
\* from which the driver has already recovered (s, i) - the text itself is compared as well
Of(w, s) == SelectSeq(w, LAMBDA x : x.s = s)
SessionOK(r) ==
  /\ \A k \in 1..Len(r.senders) :
       LET s == r.senders[k].s  issued == r.senders[k].lines  got == Of(r.wire, s) IN
       /\ Len(got) = Len(issued)                                \* every line exactly once ...
       /\ \A j \in 1..Len(got) : got[j].i = j /\ got[j].text = issued[j]   \* ... in issue order, byte for byte
  /\ \A j \in 1..Len(r.wire) : \E k \in 1..Len(r.senders) : r.senders[k].s = r.wire[j].s   \* nothing else on the wire

TInit == l = 1
Note(i) == IF Cardinality(TLCGet(2)) < 4 THEN PrintT(<<"NONCONFORMING", i, TraceLog[i].name>>) ELSE TRUE
TNext == /\ l <= Len(TraceLog)
         /\ IF SessionOK(TraceLog[l]) THEN TRUE ELSE Note(l) /\ TLCSet(2, TLCGet(2) \cup {l})
         /\ l' = l + 1
TraceSpec == TInit /\ [][TNext]_l
HW == TLCSet(1, IF l > TLCGet(1) THEN l ELSE TLCGet(1))
ASSUME TLCSet(1, 0) /\ TLCSet(2, {})
Accepted ==
  /\ TLCGet(1) = Len(TraceLog) + 1
  /\ IF TLCGet(2) = {} THEN TRUE
     ELSE Print(<<"REJECTED at event", Cardinality(TLCGet(2)), "sessions do not conform, indices", TLCGet(2)>>, FALSE)
=============================================================================
