SPECIFICATION Spec
CONSTANTS
  Names <- Q_Names
  MaxRegs = 2
  Bodies <- Q_Bodies
  IntBodies <- Q_IntBodies
VIEW View
INVARIANT TypeOK
PROPERTY EventInvokesOnlyMatching
ACTION_CONSTRAINT Emit
CHECK_DEADLOCK FALSE
