---------------------------- MODULE TrackerTrace ----------------------------
(***************************************************************************)
(* Trace validation of recorded executions of the real state.Tracker       *)
(* against Tracker.tla (C12 code->spec direction, and C14's "behave as if   *)
(* executed one at a time in an order consistent with real time").         *)
(*                                                                         *)
(* The log holds, per history, call and return events of several threads   *)
(* in real-time order (the log is appended under one mutex: a call event   *)
(* before the method is invoked, a return event after it returned).  The   *)
(* moment at which a call takes effect is not logged: Lin(t) is a silent   *)
(* step that TLC places anywhere between the call and the return of t.  A  *)
(* history is accepted iff some placement explains every returned value.   *)
(* Single-threaded histories degenerate to plain trace validation.         *)
(***************************************************************************)
EXTENDS Tracker, Json, TLCExt

TraceLog == ndJsonDeserialize("trace.ndjson")

Threads == 0..15

VARIABLES l,      \* next event of TraceLog
          pend    \* [Threads -> [st: "idle"|"called"|"done", op, args, res]]
tvars == <<vars, l, pend>>

Idle == [st |-> "idle"]

TInit ==
  /\ l = 1
  /\ pend = [t \in Threads |-> Idle]
  /\ Init

IsEvent(e) == l <= Len(TraceLog) /\ TraceLog[l].ev = e /\ l' = l + 1

SetOf(s) == {s[i] : i \in DOMAIN s}
PrivMapEq(m, j) == DOMAIN m = DOMAIN j /\ \A x \in DOMAIN m : m[x] = SetOf(j[x])

\* the model's result m against the logged (JSON) result j
ResEq(m, j) ==
  /\ m.k = j.k
  /\ CASE m.k = "nick" -> /\ m.nick = j.nick /\ m.ident = j.ident /\ m.host = j.host /\ m.name = j.name
                          /\ m.modes = SetOf(j.modes) /\ PrivMapEq(m.chans, j.chans)
       [] m.k = "chan" -> /\ m.name = j.name /\ m.topic = j.topic /\ m.flags = SetOf(j.flags)
                          /\ m.key = j.key /\ m.limit = j.limit /\ PrivMapEq(m.nicks, j.nicks)
       [] m.k = "privs" -> m.privs = SetOf(j.privs)
       [] m.k = "ison" -> m.ok = j.ok /\ (m.ok => m.privs = SetOf(j.privs))
       [] OTHER -> TRUE

DoOp(op, a) ==
  CASE op = "NewNick" -> NewNick(a[1])
    [] op = "GetNick" -> GetNick(a[1])
    [] op = "ReNick" -> ReNick(a[1], a[2])
    [] op = "DelNick" -> DelNick(a[1])
    [] op = "NickInfo" -> NickInfo(a[1], <<a[2], a[3], a[4]>>)
    [] op = "NickModes" -> NickModes(a[1], a[2])
    [] op = "NewChannel" -> NewChannel(a[1])
    [] op = "GetChannel" -> GetChannel(a[1])
    [] op = "DelChannel" -> DelChannel(a[1])
    [] op = "Topic" -> Topic(a[1], a[2])
    [] op = "ChannelModes" -> ChannelModes(a[1], [m |-> a[2], a |-> a[3]])
    [] op = "Me" -> MeOp
    [] op = "IsOn" -> IsOn(a[1], a[2])
    [] op = "Associate" -> Associate(a[1], a[2])
    [] op = "Dissociate" -> Dissociate(a[1], a[2])
    [] op = "Wipe" -> Wipe
    [] op = "String" -> StringOp

TCall ==
  /\ IsEvent("call")
  /\ LET e == TraceLog[l] IN
       /\ pend[e.t].st = "idle"
       /\ pend' = [pend EXCEPT ![e.t] = [st |-> "called", op |-> e.op, args |-> e.args]]
  /\ UNCHANGED vars

\* silent: the call of thread t takes effect
Lin(t) ==
  /\ pend[t].st = "called"
  /\ DoOp(pend[t].op, pend[t].args)
  /\ pend' = [pend EXCEPT ![t] = [st |-> "done", res |-> lastOp'.res]]
  /\ UNCHANGED l

TRet ==
  /\ IsEvent("ret")
  /\ LET e == TraceLog[l] IN
       /\ pend[e.t].st = "done"
       /\ ResEq(pend[e.t].res, e.res)
       /\ pend' = [pend EXCEPT ![e.t] = Idle]
  /\ UNCHANGED vars

\* a new history on a fresh tracker
TReset ==
  /\ IsEvent("reset")
  /\ \A t \in Threads : pend[t].st = "idle"
  /\ pend' = pend
  /\ nicks' = {Me0} /\ me' = Me0
  /\ info' = [n \in {Me0} |-> NoInfo] /\ nmodes' = [n \in {Me0} |-> {}]
  /\ chans' = {} /\ topic' = <<>> /\ cflags' = <<>> /\ ckey' = <<>> /\ climit' = <<>> /\ mem' = <<>>
  /\ lastOp' = [op |-> "NewTracker", args |-> <<Me0>>, res |-> [k |-> "none"]]

TNext == TCall \/ TRet \/ TReset \/ \E t \in Threads : Lin(t)
TraceSpec == TInit /\ [][TNext]_tvars

\* the model's invariants are evaluated in every state of every accepted trace
TraceInv == TypeOK /\ MeStays

\* acceptance by high-water mark (silent steps make the diameter useless); -workers 1
HW == TLCSet(1, IF l > TLCGet(1) THEN l ELSE TLCGet(1))
ASSUME TLCSet(1, 0)
Accepted ==
  IF TLCGet(1) = Len(TraceLog) + 1 THEN TRUE
  ELSE Print(<<"REJECTED at event", TLCGet(1), TraceLog[TLCGet(1)]>>, FALSE)

NoneSet == {}
TView == <<state, l, pend>>
=============================================================================
