------------------------------ MODULE Dispatch ------------------------------
(***************************************************************************)
(* Handler registration and event dispatch (properties C04, C16; the       *)
(* storage rule of C15 is stated here and checked by the driver).          *)
(*                                                                         *)
(* The client keeps three handler sets - internal, foreground, background. *)
(* A REGISTRATION is one call of Handle / HandleFunc / HandleBG (or, for   *)
(* the internal set, the library's own handle): it has an identity (the    *)
(* Remover that was returned), a set, an event name compared case-         *)
(* insensitively, and a body.  Dispatching an event means                  *)
(*   1. run every internal registration for the name and wait,             *)
(*   2. start the background dispatch (asynchronously: its snapshot is     *)
(*      taken some time later),                                            *)
(*   3. snapshot the foreground registrations, run them, wait.             *)
(* Bodies can do what the property allows handlers to do: remove           *)
(* themselves, remove another registration, register a new handler, panic. *)
(*                                                                         *)
(* One action per API call; Event(n) is one action whose RESULT (lastOp)   *)
(* says which registrations a conforming client invokes: int and fg are    *)
(* exact sets, for the background set the result is a pair must/may        *)
(* because a foreground body that changes the background set races with    *)
(* the start of the background dispatch (the property leaves that open).   *)
(* Every edge of TLC's state graph is replayed on a real client over a     *)
(* real connection by the driver (harness/disp).                           *)
(***************************************************************************)
EXTENDS Naturals, Sequences, FiniteSets, TLC

CONSTANTS
  Names,      \* event names offered to registrations and events, e.g. {"a", "A", "b"}
  MaxRegs,    \* registrations that can ever be made (identities 1..MaxRegs)
  Bodies,     \* bodies offered to new registrations
  IntBodies   \* bodies offered to registrations in the internal set

Sets == {"int", "fg", "bg"}

\* canonical (lower-case) form of the names used by the configurations; single letters and "x<letter>"
\* names (the alphabet configuration) are folded letter by letter
Upper == "ABCDEFGHIJKLMNOPQRSTUVWXYZ"
Lower == "abcdefghijklmnopqrstuvwxyz"
Pos(c) == IF \E i \in 1..26 : SubSeq(Upper, i, i) = c THEN CHOOSE i \in 1..26 : SubSeq(Upper, i, i) = c ELSE 0
Fold(c) == IF Pos(c) > 0 THEN SubSeq(Lower, Pos(c), Pos(c)) ELSE c
Canon(n) == CASE n = "A" -> "a" [] n = "B" -> "b" [] n = "Ab" -> "ab" [] n = "aB" -> "ab" [] n = "AB" -> "ab"
              [] Len(n) = 1 -> Fold(n)
              [] Len(n) = 2 /\ SubSeq(n, 1, 1) = "x" -> "x" \o Fold(SubSeq(n, 2, 2))
              [] OTHER -> n

VARIABLES
  regs,     \* [id -> [set, name, body, arg]] for the registrations currently in force
  nextId,   \* next identity
  gone,     \* identities whose Remover has been used
  lastOp    \* observation: the call and its result

vars == <<regs, nextId, gone, lastOp>>
state == <<regs, nextId, gone>>

Ids == DOMAIN regs
InSet(r, s, n) == {i \in DOMAIN r : r[i].set = s /\ Canon(r[i].name) = Canon(n)}
Without(r, D) == [i \in DOMAIN r \ D |-> r[i]]

Init ==
  /\ regs = <<>> /\ nextId = 1 /\ gone = {}
  /\ lastOp = [op |-> "init"]

\* Handle / HandleFunc (fg), HandleBG (bg), internal handle (int).  arg is the
\* registration a "rm" body removes when invoked.
Register(s, n, b, a) ==
  /\ nextId <= MaxRegs
  /\ (b = "rm") => (a \in 1..(nextId - 1))
  /\ (b # "rm") => (a = 0)
  /\ regs' = [i \in Ids \cup {nextId} |-> IF i = nextId THEN [set |-> s, name |-> n, body |-> b, arg |-> a] ELSE regs[i]]
  /\ nextId' = nextId + 1 /\ gone' = gone
  /\ lastOp' = [op |-> "register", id |-> nextId, set |-> s, name |-> n, body |-> b, arg |-> a]

\* Remover.Remove(), used at most once per registration
Remove(i) ==
  /\ i \in Ids /\ i \notin gone
  /\ regs' = Without(regs, {i}) /\ gone' = gone \cup {i} /\ nextId' = nextId
  /\ lastOp' = [op |-> "remove", id |-> i]

\* what the bodies of the invoked registrations I do to the handler sets; bodies
\* of one phase run concurrently, their effects commute:
\*   rmself   - removes its own registration (first invocation only)
\*   rm       - removes registration arg if its Remover has not been used yet
\*   addfg/addbg - registers a new "noop" handler for name "b" (if identities are left)
Removed(r, g, I) ==
  {i \in I : r[i].body = "rmself"} \cup {r[i].arg : i \in {j \in I : r[j].body = "rm" /\ r[j].arg \in DOMAIN r /\ r[j].arg \notin g}}
Adders(r, I) == {i \in I : r[i].body \in {"addfg", "addbg"}}

\* at most one adder per phase is generated (identities are handed out in an order
\* the model must be able to predict)
PhaseOK(r, I) == Cardinality(Adders(r, I)) <= 1

Apply(r, nid, g, I) ==
  LET rm == Removed(r, g, I)
      r1 == Without(r, rm)
      ad == Adders(r, I)
  IN IF ad # {} /\ nid <= MaxRegs
       THEN LET a == CHOOSE x \in ad : TRUE IN
            [regs |-> [i \in DOMAIN r1 \cup {nid} |->
                         IF i = nid THEN [set |-> IF r[a].body = "addfg" THEN "fg" ELSE "bg", name |-> "b", body |-> "noop", arg |-> 0]
                         ELSE r1[i]],
             nid |-> nid + 1, gone |-> g \cup rm, added |-> {nid}]
       ELSE [regs |-> r1, nid |-> nid, gone |-> g \cup rm, added |-> {}]

\* body of registration i as of the current state (registrations added while an
\* event is being dispatched have the body "noop")
BodyOf(i) == IF i \in DOMAIN regs THEN regs[i].body ELSE "noop"

\* an incoming event named n
Event(n) ==
  LET I  == InSet(regs, "int", n)
      s1 == Apply(regs, nextId, gone, I)
      F  == InSet(s1.regs, "fg", n)
      B0 == InSet(s1.regs, "bg", n)          \* background set when the internal phase is over
      s2 == Apply(s1.regs, s1.nid, s1.gone, F)
      B1 == InSet(s2.regs, "bg", n)          \* ... and when every foreground body has run
      must == B0 \cap B1
      may  == (B0 \cup B1) \ must
  IN /\ PhaseOK(regs, I) /\ PhaseOK(s1.regs, F)
     \* the background bodies that certainly ran take effect; to keep the successor
     \* deterministic no racy registration has a body with effects
     /\ \A i \in may : BodyOf(i) \in {"noop", "panic"}
     /\ \A i \in (B0 \cup B1) : BodyOf(i) \notin {"addfg", "addbg", "rm"}
     /\ LET Bm == must \cap DOMAIN s2.regs
            s3 == Apply(s2.regs, s2.nid, s2.gone, Bm)
        IN /\ regs' = s3.regs /\ nextId' = s3.nid /\ gone' = s3.gone
           /\ lastOp' = [op |-> "event", name |-> n, int |-> I, fg |-> F, bgmust |-> must, bgmay |-> may,
                         panics |-> {i \in I \cup F \cup must : BodyOf(i) = "panic"},
                         maypanic |-> {i \in may : BodyOf(i) = "panic"}]

\* the connection ends and the client connects again - from a foreground DISCONNECTED handler that the harness
\* keeps registered, the usual reconnect idiom.  The handler sets belong to the client, not to a connection:
\* nothing changes, and later events still invoke what is registered
Reconnect ==
  /\ lastOp' = [op |-> "reconnect"]
  /\ UNCHANGED <<regs, nextId, gone>>

Next ==
  \/ Reconnect
  \/ \E s \in {"fg", "bg"}, n \in Names, b \in Bodies, a \in 0..MaxRegs : Register(s, n, b, a)
  \/ \E n \in Names, b \in IntBodies, a \in 0..MaxRegs : Register("int", n, b, a)
  \/ \E i \in 1..MaxRegs : Remove(i)
  \/ \E n \in Names : Event(n)

Spec == Init /\ [][Next]_vars

-----------------------------------------------------------------------------
(* C04 as properties of the model *)

TypeOK == /\ Ids \subseteq 1..MaxRegs /\ nextId \in 1..(MaxRegs + 1) /\ gone \subseteq 1..MaxRegs
          /\ Ids \cap gone = {}

\* an event never invokes a registration whose Remover was used before the event,
\* nor one registered under a different name, and names are compared case-insensitively
EventInvokesOnlyMatching ==
  [][lastOp'.op = "event" =>
       LET all == lastOp'.int \cup lastOp'.fg \cup lastOp'.bgmust \cup lastOp'.bgmay IN
       /\ all \cap gone = {}
       /\ \A i \in all \cap Ids : Canon(regs[i].name) = Canon(lastOp'.name)
       \* every foreground registration in force when the event arrives and not removed
       \* by an internal body is invoked
       /\ \A i \in Ids : (regs[i].set = "fg" /\ Canon(regs[i].name) = Canon(lastOp'.name)
                          /\ i \notin Removed(regs, gone, lastOp'.int)) => i \in lastOp'.fg]_vars
=============================================================================
