-------------------------- MODULE RegistrationTrace --------------------------
EXTENDS Registration, TLCExt
TraceLog == ndJsonDeserialize("trace.ndjson")
VARIABLE l
TInit == l = 1
Note(i) == IF Cardinality(TLCGet(2)) < 4 THEN PrintT(<<"NONCONFORMING", i, TraceLog[i], "expected", DialAddr(TraceLog[i].cfg.server, TraceLog[i].cfg.ssl), Burst(TraceLog[i].cfg)>>) ELSE TRUE
TNext == /\ l <= Len(TraceLog)
         /\ IF Conforms(TraceLog[l]) THEN TRUE ELSE Note(l) /\ TLCSet(2, TLCGet(2) \cup {l})
         /\ IF GrowthOK(TraceLog[l]) THEN TRUE ELSE TLCSet(3, TLCGet(3) \cup {l})
         /\ l' = l + 1
TraceSpec == TInit /\ [][TNext]_l
HW == TLCSet(1, IF l > TLCGet(1) THEN l ELSE TLCGet(1))
ASSUME TLCSet(1, 0) /\ TLCSet(2, {}) /\ TLCSet(3, {})
Accepted ==
  /\ TLCGet(1) = Len(TraceLog) + 1
  /\ PrintT(<<"GROWTH", Cardinality(TLCGet(3))>>)
  /\ IF TLCGet(2) = {} THEN TRUE
     ELSE Print(<<"REJECTED at event", Cardinality(TLCGet(2)), "sessions do not conform, indices", TLCGet(2)>>, FALSE)
=============================================================================
