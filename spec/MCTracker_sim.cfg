SPECIFICATION Spec
CONSTANTS
  Names <- S_Names
  ChanNames <- S_Chans
  Me0 = "a"
  Infos <- A_Infos
  NModeStrs <- A_NModeStrs
  Topics <- A_Topics
  CModeCalls <- S_CModeCalls
INVARIANTS TypeOK MeStays
ACTION_CONSTRAINT Emit
CHECK_DEADLOCK FALSE
