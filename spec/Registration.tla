---------------------------- MODULE Registration ----------------------------
(***************************************************************************)
(* Registration and keep-alive (property C18): which address a             *)
(* configuration makes the client dial, the registration burst it sends on *)
(* every successful connect, the answer to a server PING, and whether it   *)
(* sends PINGs of its own.  A configuration is a record                    *)
(*   [nick, ident, name, pass, neg, sasl, ssl, server, pingfreq]           *)
(***************************************************************************)
EXTENDS Strings

\* a port was given iff a ':' follows the last ']' (or there is no ']' and there is a ':')
LastIndexOf(s, c) == LET M == {i \in 1..Len(s) : Ch(s, i) = c} IN IF M = {} THEN 0 ELSE Max(M)
HasPort(s) == LastIndexOf(s, ":") > LastIndexOf(s, "]")
DefaultPort(ssl) == IF ssl THEN "6697" ELSE "6667"
DialAddr(server, ssl) == IF HasPort(server) THEN server ELSE server \o ":" \o DefaultPort(ssl)

\* capability negotiation is on when asked for, and whenever SASL is configured
Negotiates(cfg) == cfg.neg \/ cfg.sasl
Burst(cfg) ==
  (IF Negotiates(cfg) THEN <<"CAP LS">> ELSE <<>>)
  \o (IF cfg.pass # "" THEN <<"PASS " \o cfg.pass>> ELSE <<>>)
  \o <<"NICK " \o cfg.nick, "USER " \o cfg.ident \o " 12 * :" \o cfg.name>>

Pong(tok) == "PONG :" \o tok

\* a recorded session r = [cfg, dialed, burst, burst2, pongs : Seq([tok, reply]), pings]
Conforms(r) ==
  /\ r.dialed = DialAddr(r.cfg.server, r.cfg.ssl)
  /\ r.burst = Burst(r.cfg)
  /\ r.burst2 = Burst(r.cfg)                                    \* again after a reconnect
  /\ \A i \in 1..Len(r.pongs) : r.pongs[i].reply = <<Pong(r.pongs[i].tok)>>
  /\ (r.cfg.pingfreq > 0) => r.pings >= 1
  /\ (r.cfg.pingfreq = 0) => r.pings = 0
=============================================================================
