---------------------------- MODULE Registration ----------------------------
(***************************************************************************)
(* Registration and keep-alive (property C18): which address a             *)
(* configuration makes the client dial, the registration burst it sends on *)
(* every successful connect, the answer to a server PING, and whether it   *)
(* sends PINGs of its own.  A configuration is a record                    *)
(*   [nick, ident, name, pass, neg, sasl, ssl, server, pingfreq]           *)
(***************************************************************************)
EXTENDS Strings

\* a port was given iff a ':' follows the last ']' (or there is no ']' and there is a ':')
LastIndexOf(s, c) == LET M == {i \in 1..Len(s) : Ch(s, i) = c} IN IF M = {} THEN 0 ELSE Max(M)
HasPort(s) == LastIndexOf(s, ":") > LastIndexOf(s, "]")
DefaultPort(ssl) == IF ssl THEN "6697" ELSE "6667"
DialAddr(server, ssl) == IF HasPort(server) THEN server ELSE server \o ":" \o DefaultPort(ssl)

\* capability negotiation is on when asked for, and whenever SASL is configured
Negotiates(cfg) == cfg.neg \/ cfg.sasl
Burst(cfg) ==
  (IF Negotiates(cfg) THEN <<"CAP LS">> ELSE <<>>)
  \o (IF cfg.pass # "" THEN <<"PASS " \o cfg.pass>> ELSE <<>>)
  \o <<"NICK " \o cfg.nick, "USER " \o cfg.ident \o " 12 * :" \o cfg.name>>

Pong(tok) == "PONG :" \o tok
\* "a PONG carrying the same token": the trailing form always carries it; the bare form does when the
\* token is a single word
CarriesToken(reply, tok) ==
  \/ reply = <<Pong(tok)>>
  \/ (tok # "" /\ ~Contains1(tok, " ") /\ Ch(tok, 1) # ":" /\ reply = <<"PONG " \o tok>>)

\* growth beyond the listed properties: the built-in answers to CTCP VERSION and CTCP PING
\* (a NOTICE to the sender carrying the configured version / the argument that was sent)
CtcpAnswer(q, nick, version) ==
  CASE q.verb = "VERSION" -> <<"NOTICE " \o nick \o " :" \o SOH \o "VERSION " \o version \o SOH>>
    [] q.verb = "PING" /\ q.hasarg -> <<"NOTICE " \o nick \o " :" \o SOH \o "PING " \o q.arg \o SOH>>
    [] OTHER -> <<>>
GrowthOK(r) == \A i \in 1..Len(r.ctcps) : r.ctcps[i].reply = CtcpAnswer(r.ctcps[i], r.ctcps[i].from, r.version)

\* a recorded session r = [cfg, dialed, burst, burst2, pongs : Seq([tok, reply]), pings]
Conforms(r) ==
  /\ r.dialed = DialAddr(r.cfg.server, r.cfg.ssl)
  /\ r.burst = Burst(r.cfg)
  /\ r.burst2 = Burst(r.cfg)                                    \* again after a reconnect
  /\ \A i \in 1..Len(r.pongs) : CarriesToken(r.pongs[i].reply, r.pongs[i].tok)
  /\ (r.cfg.pingfreq > 0) => r.pings >= 1
  /\ (r.cfg.pingfreq = 0) => r.pings = 0
=============================================================================
