---------------------------- MODULE PhasesTrace ----------------------------
(***************************************************************************)
(* Property monitor for C03, C05 and C16 on handler events recorded from   *)
(* the real client.  The events drive the observation variables of         *)
(* Phases.tla directly (the loop's own variables are not observable and    *)
(* stay untouched); the invariants are Phases' own predicates, so what TLC *)
(* proves of the design is literally what is evaluated on the recorded     *)
(* executions.  Events (global log order = real-time order):               *)
(*   reset                      a new session (line 1 is the 001 welcome)  *)
(*   enter kind h k wk wnext    a handler invocation starts; wk / wnext:   *)
(*                              does the tracker reflect line k / k+1 ?    *)
(*   exit kind h k panic wnext  it ends (by returning or panicking)        *)
(*   recover                    the configured recovery function ran       *)
(*   ipanic                     a line that makes a built-in handler panic *)
(*                              was sent (exactly one panic is expected)   *)
(*   disc                       a DISCONNECTED handler starts              *)
(***************************************************************************)
EXTENDS Phases, Json, TLCExt

TraceLog == ndJsonDeserialize("trace.ndjson")
VARIABLES l, lastLine   \* position in the log; largest line for which a fg handler has started
tvars == <<vars, l, lastLine>>

IsEvent(e) == l <= Len(TraceLog) /\ TraceLog[l].ev = e /\ l' = l + 1
Check(r, tag, ok) ==
  IF ok THEN TRUE
  ELSE /\ (IF Cardinality(TLCGet(r)) < 3 THEN PrintT(<<"NONCONFORMING", tag, "event", l, TraceLog[l]>>) ELSE TRUE)
       /\ TLCSet(r, TLCGet(r) \cup {l})
Fresh == /\ pc' = "idle" /\ cur' = 0 /\ applied' = 0 /\ bgPending' = {} /\ act' = {} /\ fin' = {} /\ blocked' = {}
         /\ seen' = <<>> /\ panics' = 0 /\ recovered' = 0 /\ closing' = FALSE /\ disc' = "no" /\ discOverlap' = FALSE

TInit == Init /\ l = 1 /\ lastLine = 0

\* what the handler saw of the tracker, expressed as an "applied" index
SeenOf(e) == IF e.wk /\ ~e.wnext THEN e.k ELSE IF e.wk THEN e.k + 1 ELSE e.k - 1

\* all foreground handlers of the previous line have run before a new line starts (exactly once each)
PrevComplete(k) == (k > lastLine /\ lastLine > 0) => \A h \in FgH : Inv("fg", h, lastLine) \in fin

TEnter ==
  /\ IsEvent("enter")
  /\ LET e == TraceLog[l]  i == Inv(e.kind, e.h, e.k) IN
       /\ Check(4, "C16/C04 handler started twice for one line", i \notin act /\ i \notin fin)
       /\ Check(2, "C03 a line started before every foreground handler of the previous one had run", (e.kind = "fg") => PrevComplete(e.k))
       /\ act' = act \cup {i}
       \* invocations of lines before the previous one can no longer matter to any predicate
       \* (they were checked when they happened): forget them, the sets stay small
       /\ LET keepFin == IF e.kind = "fg" /\ e.k > lastLine
                            THEN {j \in fin : j.kind = "conn" \/ j.k >= lastLine} ELSE fin
               dom == (DOMAIN seen \cap (act \cup keepFin)) \cup {i}
          IN /\ fin' = keepFin
             /\ seen' = [j \in dom |-> IF j = i THEN SeenOf(e) ELSE seen[j]]
       /\ lastLine' = IF e.kind = "fg" /\ e.k > lastLine THEN e.k ELSE lastLine
  /\ UNCHANGED <<pc, cur, applied, bgPending, blocked, panics, recovered, closing, disc, discOverlap>>

TExit ==
  /\ IsEvent("exit")
  /\ LET e == TraceLog[l]  i == Inv(e.kind, e.h, e.k) IN
       /\ Check(5, "harness: exit without enter", i \in act)
       /\ Check(3, "C05 a later line was applied while a foreground handler ran", (e.kind \in {"fg", "conn"}) => ~e.wnext)
       /\ act' = act \ {i} /\ fin' = fin \cup {i}
       /\ panics' = IF e.panic THEN panics + 1 ELSE panics
  /\ UNCHANGED <<pc, cur, applied, bgPending, blocked, seen, recovered, closing, disc, discOverlap, lastLine>>

TRecover == /\ IsEvent("recover") /\ recovered' = recovered + 1
            /\ UNCHANGED <<pc, cur, applied, bgPending, act, fin, blocked, seen, panics, closing, disc, discOverlap, lastLine>>
TIPanic == /\ IsEvent("ipanic") /\ panics' = panics + 1
           /\ UNCHANGED <<pc, cur, applied, bgPending, act, fin, blocked, seen, recovered, closing, disc, discOverlap, lastLine>>
TDisc == /\ IsEvent("disc")
         /\ disc' = "done" /\ discOverlap' = (\E i \in act : i.kind \in {"fg", "conn"})
         /\ UNCHANGED <<pc, cur, applied, bgPending, act, fin, blocked, seen, panics, recovered, closing, lastLine>>
\* end of a session: every panic has reached the recovery function (C16), then start afresh
TReset == /\ IsEvent("reset")
          /\ Check(4, "C16 a panic did not reach the recovery function (or it ran without a panic)", recovered = panics)
          /\ Fresh /\ lastLine' = 0

\* Phases' predicates, evaluated on the state AFTER every event; a violated predicate is recorded
\* (register 2: C03, 3: C05, 4: C16) and the validation goes on, so that one rejection does not hide
\* the rest of the trace.
Props ==
  /\ Check(2, "C03 OneLineAtATime", OneLineAtATime')
  /\ Check(2, "C03 InOrder", InOrder')
  /\ Check(2, "C03 ConnectedPlacement", ConnectedPlacement')
  /\ Check(2, "C03 DiscAfterFg", DiscAfterFg')
  /\ Check(3, "C05 AppliedBeforeHandlers", AppliedBeforeHandlers')
\* a handler received a line that was never sent, or (the connection staying up) a sent line never arrived
TBogus == /\ (IsEvent("unknown") \/ IsEvent("lost"))
          /\ Check(2, "C03 handlers did not receive exactly the lines that were sent", FALSE)
          /\ UNCHANGED <<vars, lastLine>>
\* the connection ended but the foreground never received DISCONNECTED while a background handler was blocked
TNoDisc == /\ IsEvent("nodisc")
           /\ Check(4, "C16 a background handler that never returns kept DISCONNECTED from being delivered", FALSE)
           /\ UNCHANGED <<vars, lastLine>>
\* the connection is up, background handlers are blocked for ever, and the event loop has stopped answering
TStalled == /\ IsEvent("stalled")
            /\ Check(4, "C16 background handlers that never return stopped the delivery of later events", FALSE)
            /\ UNCHANGED <<vars, lastLine>>
\* the welcome line was dispatched (lines after it were delivered) but CONNECTED never reached its handlers
TNoConnected == /\ IsEvent("noconnected")
                /\ Check(4, "C16 CONNECTED was not delivered although the welcome line was processed", FALSE)
                /\ UNCHANGED <<vars, lastLine>>
TNext == (TEnter \/ TExit \/ TRecover \/ TIPanic \/ TDisc \/ TReset \/ TBogus \/ TNoDisc \/ TStalled \/ TNoConnected) /\ Props
TraceSpec == TInit /\ [][TNext]_tvars

HW == TLCSet(1, IF l > TLCGet(1) THEN l ELSE TLCGet(1))
ASSUME TLCSet(1, 0) /\ TLCSet(2, {}) /\ TLCSet(3, {}) /\ TLCSet(4, {}) /\ TLCSet(5, {})
Accepted ==
  /\ IF TLCGet(1) = Len(TraceLog) + 1 THEN TRUE
     ELSE Print(<<"REJECTED at event", TLCGet(1), TraceLog[TLCGet(1)]>>, FALSE)
  /\ PrintT(<<"VERDICT", "C03", Cardinality(TLCGet(2)), "C05", Cardinality(TLCGet(3)), "C16", Cardinality(TLCGet(4)), "HARNESS", Cardinality(TLCGet(5))>>)
  /\ TLCGet(2) = {} /\ TLCGet(3) = {} /\ TLCGet(4) = {} /\ TLCGet(5) = {}
=============================================================================
