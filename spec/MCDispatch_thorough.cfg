SPECIFICATION Spec
CONSTANTS
  Names <- Q_Names
  MaxRegs = 3
  Bodies <- T_Bodies
  IntBodies <- T_IntBodies
VIEW View
INVARIANT TypeOK
PROPERTY EventInvokesOnlyMatching
ACTION_CONSTRAINT Emit
CHECK_DEADLOCK FALSE
