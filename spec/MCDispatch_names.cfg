SPECIFICATION Spec
CONSTANTS
  Names <- N_Names
  MaxRegs = 1
  Bodies <- N_Bodies
  IntBodies <- N_Bodies
VIEW View
INVARIANT TypeOK
PROPERTY EventInvokesOnlyMatching
ACTION_CONSTRAINT Emit
CHECK_DEADLOCK FALSE
