----------------------------- MODULE FloodTrace -----------------------------
(***************************************************************************)
(* C10 on timed end-to-end runs.  One record per session:                  *)
(*   [flood |-> BOOLEAN (Config.Flood, i.e. protection OFF), b0,           *)
(*    lines : Seq([chars, elapsed, badness, rl, w])]                       *)
(* all times in microseconds: elapsed and badness are the values of the    *)
(* accounting step (hook write.rl), rl the moment of the accounting, w the *)
(* moment the line was written to the socket.  Checked per session:        *)
(*  - the arithmetic of every step (penalty decays in real time, never     *)
(*    below zero, charge 2 s + n/120 s),                                   *)
(*  - a line is held back for its own charge exactly when the penalty      *)
(*    exceeds 10 s,                                                        *)
(*  - the window bound on the actual write times,                          *)
(*  - with protection off no line is delayed (and nothing is accounted).   *)
(***************************************************************************)
EXTENDS Integers, Sequences, FiniteSets, TLC, TLCExt, Json
TraceLog == ndJsonDeserialize("trace.ndjson")
VARIABLE l

Charge(n) == 2000000 + (n * 1000000) \div 120
Threshold == 10000000
Abs(x) == IF x < 0 THEN 0 - x ELSE x
Max0(x) == IF x < 0 THEN 0 ELSE x
Tol == 5              \* microseconds of rounding
Prompt == 1000000     \* a line that is not held is written within a second of its accounting

RECURSIVE Sum(_, _, _)
Sum(h, i, j) == IF i > j THEN 0 ELSE Charge(h[i].chars) + Sum(h, i + 1, j)

StepOK(r, i) ==
  LET x == r.lines[i]
      before == IF i = 1 THEN r.b0 ELSE r.lines[i - 1].badness
      held == x.badness > Threshold
      delay == x.w - x.rl IN
  /\ Abs(x.badness - Max0(before + Charge(x.chars) - x.elapsed)) <= Tol
  /\ held => delay >= Charge(x.chars) - Tol
  /\ ~held => delay < Prompt

\* slack of the first line of a run: time between the end of its accounting (and sleep) and its write
Slack(x) == Max0((x.w - x.rl) - (IF x.badness > Threshold THEN Charge(x.chars) ELSE 0))
WindowOK(r) ==
  \A i, j \in 1..Len(r.lines) : i <= j =>
     Sum(r.lines, i, j) <= (r.lines[j].w - r.lines[i].w) + Threshold + Charge(r.lines[i].chars) + Charge(r.lines[j].chars) + Slack(r.lines[i]) + Tol

SessionOK(r) ==
  IF r.flood
    THEN \A i \in 1..Len(r.lines) : r.lines[i].w - r.lines[i].issued < Prompt /\ r.lines[i].rl = 0
    ELSE (\A i \in 1..Len(r.lines) : StepOK(r, i)) /\ (r.nowindow \/ WindowOK(r))

TInit == l = 1
Note(i) == IF Cardinality(TLCGet(2)) < 3 THEN PrintT(<<"NONCONFORMING", i, TraceLog[i]>>) ELSE TRUE
TNext == /\ l <= Len(TraceLog)
         /\ IF SessionOK(TraceLog[l]) THEN TRUE ELSE Note(l) /\ TLCSet(2, TLCGet(2) \cup {l})
         /\ l' = l + 1
TraceSpec == TInit /\ [][TNext]_l
HW == TLCSet(1, IF l > TLCGet(1) THEN l ELSE TLCGet(1))
ASSUME TLCSet(1, 0) /\ TLCSet(2, {})
Accepted ==
  /\ TLCGet(1) = Len(TraceLog) + 1
  /\ IF TLCGet(2) = {} THEN TRUE
     ELSE Print(<<"REJECTED at event", Cardinality(TLCGet(2)), "sessions do not follow the penalty rule, indices", TLCGet(2)>>, FALSE)
=============================================================================
