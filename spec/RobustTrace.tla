---------------------------- MODULE RobustTrace ----------------------------
(***************************************************************************)
(* Second sentence of C13 and the generator clause of C17, on recorded     *)
(* data.  Records:                                                         *)
(*  [kind |-> "soup", line, me, nicks : Seq([n, chans]), chans : Seq([c,   *)
(*   members])] - the tracker's projection after an arbitrary (not         *)
(*   necessarily conformant) line: the client's own entry exists, every    *)
(*   tracked channel has the client in it, every other tracked nick is on  *)
(*   some tracked channel;                                                 *)
(*  [kind |-> "newnick", old, new] - one call of the default nick          *)
(*   generator: same length, different, differing only in the last byte.   *)
(***************************************************************************)
EXTENDS Naturals, Sequences, FiniteSets, TLC, TLCExt, Json
TraceLog == ndJsonDeserialize("trace.ndjson")
VARIABLE l
SetOf(s) == {s[i] : i \in DOMAIN s}

RobustOK(r) ==
  LET nn == {r.nicks[i].n : i \in DOMAIN r.nicks}
      cc == {r.chans[i].c : i \in DOMAIN r.chans} IN
  /\ r.me \in nn                                                               \* never loses the client's own entry
  /\ \A i \in DOMAIN r.chans : r.me \in SetOf(r.chans[i].members)              \* no channel without the client in it
  /\ \A i \in DOMAIN r.nicks : r.nicks[i].n = r.me \/ SetOf(r.nicks[i].chans) \cap cc # {}   \* no user sharing no channel

NewNickOK(r) ==
  /\ Len(r.new) = Len(r.old) /\ r.new # r.old
  /\ SubSeq(r.new, 1, Len(r.new) - 1) = SubSeq(r.old, 1, Len(r.old) - 1)

OK(r) == IF r.kind = "soup" THEN RobustOK(r) ELSE NewNickOK(r)
TInit == l = 1
\* register 2: tracker records (C13), register 3: nick generator records (C17)
Reg(i) == IF TraceLog[i].kind = "soup" THEN 2 ELSE 3
Note(i) == IF Cardinality(TLCGet(Reg(i))) < 4 THEN PrintT(<<"NONCONFORMING", i, TraceLog[i]>>) ELSE TRUE
TNext == /\ l <= Len(TraceLog)
         /\ IF OK(TraceLog[l]) THEN TRUE ELSE Note(l) /\ TLCSet(Reg(l), TLCGet(Reg(l)) \cup {l})
         /\ l' = l + 1
TraceSpec == TInit /\ [][TNext]_l
HW == TLCSet(1, IF l > TLCGet(1) THEN l ELSE TLCGet(1))
ASSUME TLCSet(1, 0) /\ TLCSet(2, {}) /\ TLCSet(3, {})
Accepted ==
  /\ TLCGet(1) = Len(TraceLog) + 1
  /\ PrintT(<<"VERDICT", "C13", Cardinality(TLCGet(2)), "C17", Cardinality(TLCGet(3))>>)
  /\ IF TLCGet(2) = {} /\ TLCGet(3) = {} THEN TRUE
     ELSE Print(<<"REJECTED at event", Cardinality(TLCGet(2) \cup TLCGet(3)), "records do not conform, indices", TLCGet(2) \cup TLCGet(3)>>, FALSE)
=============================================================================
