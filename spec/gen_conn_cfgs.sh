#!/bin/bash
# Regenerates the MCConn_*.cfg files (one config per property family, DESIGN.md 3.3).
cd "$(dirname "$0")"
mkcfg() { # file MaxGen QCap NIn NOut Users Senders NSend Burst EOF Cancel WErr Stall Reconnect Up Ping Drain Stale NoW Init SPEC PROPS
cat > $1 <<EOF2
SPECIFICATION ${21}
CONSTANTS
  QCap = $3
  NIn = $4
  NOut = $5
  MaxGen = $2
  UserNames = $6
  SenderNames = $7
  NSend = $8
  Burst = $9
  AllowEOF = ${10}
  AllowCancel = ${11}
  AllowWErr = ${12}
  AllowStall = ${13}
  Reconnect = "${14}"
  ConnectWhileUp = ${15}
  HasPing = ${16}
  DrainOnce = ${17}
  StaleClose = ${18}
  NoWatcher = ${19}
  InitBeforeCheck = ${20}
  EarlyUnlock = ${23:-FALSE}
INVARIANTS ${INVS:-TypeOK AtMostOneDisc RegisterOnce DiscSeesDisconnected NoCrash OwnClose ClosedForACause GoneAfterDisc WireOrdered AllWritten}
${22}
CHECK_DEADLOCK FALSE
EOF2
}
LIVE="PROPERTIES CloseReturns EndedGenDisconnects NoLeak"
U1='{"u1"}'; U2='{"u1","u2"}'; N='{}'
rm -f MCConn_*.cfg
#      file                          Gen Q In Out Users Snd NS Burst EOF  Canc  WErr  Stall Reconn  Up    Ping  Drain Stale NoW   Init  spec props
# quick tier: a few seconds each
mkcfg MCConn_q_close.cfg            1  1  2  1  "$U1" "$N" 0  TRUE  FALSE FALSE FALSE FALSE none   TRUE  FALSE FALSE FALSE FALSE FALSE Spec "$LIVE"
mkcfg MCConn_q_eof.cfg              1  1  2  1  "$N"  "$N" 0  TRUE  TRUE  FALSE FALSE FALSE none   FALSE FALSE FALSE FALSE FALSE FALSE Spec "$LIVE"
mkcfg MCConn_q_cancel.cfg           1  1  2  1  "$N"  "$N" 0  TRUE  FALSE TRUE  FALSE TRUE  none   FALSE FALSE FALSE FALSE FALSE FALSE Spec "$LIVE"
mkcfg MCConn_q_werr.cfg             1  1  2  1  "$N"  "$N" 0  TRUE  FALSE FALSE TRUE  FALSE none   FALSE FALSE FALSE FALSE FALSE FALSE Spec "$LIVE"
mkcfg MCConn_q_coincide.cfg         1  1  1  1  "$U1" "$N" 0  TRUE  TRUE  TRUE  TRUE  FALSE none   FALSE FALSE FALSE FALSE FALSE FALSE Spec "$LIVE"
mkcfg MCConn_q_ping.cfg             1  1  1  0  "$N"  "$N" 0  TRUE  FALSE TRUE  FALSE TRUE  none   FALSE TRUE  FALSE FALSE FALSE FALSE Spec "$LIVE"
mkcfg MCConn_q_rc_handler_eof.cfg   2  1  1  0  "$N"  "$N" 0  TRUE  TRUE  FALSE FALSE FALSE handler FALSE FALSE FALSE FALSE FALSE FALSE Spec "$LIVE"
mkcfg MCConn_q_rc_other_eof.cfg     2  1  1  0  "$N"  "$N" 0  TRUE  TRUE  FALSE FALSE FALSE other  FALSE FALSE FALSE FALSE FALSE FALSE Spec "$LIVE"
mkcfg MCConn_q_out.cfg              1  1  0  0  "$N" '{"s1","s2"}' 2 TRUE FALSE FALSE FALSE FALSE none FALSE FALSE FALSE FALSE FALSE FALSE SafetySpec ""
mkcfg MCConn_t_out_stall.cfg        1  1  0  0  "$U1" '{"s1","s2"}' 2 TRUE FALSE FALSE FALSE TRUE none FALSE FALSE FALSE FALSE FALSE FALSE Spec "$LIVE"
# thorough tier: minutes each
mkcfg MCConn_t_close.cfg            1  1  3  2  "$U1" "$N" 0  TRUE  FALSE FALSE FALSE FALSE none   TRUE  FALSE FALSE FALSE FALSE FALSE Spec "$LIVE"
mkcfg MCConn_t_eof.cfg              1  1  3  2  "$N"  "$N" 0  TRUE  TRUE  FALSE FALSE FALSE none   FALSE FALSE FALSE FALSE FALSE FALSE Spec "$LIVE"
mkcfg MCConn_t_cancel.cfg           1  1  3  2  "$N"  "$N" 0  TRUE  FALSE TRUE  FALSE TRUE  none   FALSE FALSE FALSE FALSE FALSE FALSE Spec "$LIVE"
mkcfg MCConn_t_werr.cfg             1  1  3  2  "$N"  "$N" 0  TRUE  FALSE FALSE TRUE  FALSE none   FALSE FALSE FALSE FALSE FALSE FALSE Spec "$LIVE"
mkcfg MCConn_t_teardown_full.cfg    1  1  3  2  "$U1" "$N" 0  TRUE  TRUE  TRUE  TRUE  TRUE  none   TRUE  FALSE FALSE FALSE FALSE FALSE Spec "$LIVE"
mkcfg MCConn_t_ping.cfg             1  1  2  1  "$U1" "$N" 0  TRUE  TRUE  TRUE  FALSE TRUE  none   FALSE TRUE  FALSE FALSE FALSE FALSE Spec "$LIVE"
mkcfg MCConn_t_rc_handler_close.cfg 2  1  1  0  "$U1" "$N" 0  TRUE  FALSE FALSE FALSE FALSE handler FALSE FALSE FALSE FALSE FALSE FALSE Spec "$LIVE"
mkcfg MCConn_t_rc_handler_cancel.cfg 2 1  1  0  "$N"  "$N" 0  TRUE  FALSE TRUE  FALSE FALSE handler FALSE FALSE FALSE FALSE FALSE FALSE SafetySpec ""
mkcfg MCConn_t_rc_handler.cfg       2  1  1  1  "$N"  "$N" 0  TRUE  TRUE  TRUE  FALSE FALSE handler FALSE FALSE FALSE FALSE FALSE FALSE SafetySpec ""
mkcfg MCConn_t_rc_other.cfg         2  1  1  1  "$N"  "$N" 0  TRUE  TRUE  TRUE  FALSE FALSE other  FALSE FALSE FALSE FALSE FALSE FALSE SafetySpec ""
mkcfg MCConn_t_rc3.cfg              3  1  1  0  "$N"  "$N" 0  TRUE  TRUE  FALSE FALSE FALSE handler FALSE FALSE FALSE FALSE FALSE FALSE SafetySpec ""
mkcfg MCConn_t_out.cfg              1  2  0  0  "$N" '{"s1","s2"}' 3 TRUE FALSE FALSE FALSE FALSE none FALSE FALSE FALSE FALSE FALSE FALSE SafetySpec ""
# eager reconnect: Connect from another goroutine as soon as the client is disconnected (it waits for the lock the teardown holds).
# Connected() may then be true again while DISCONNECTED handlers run - the user's own doing: DiscSeesDisconnected is not claimed here
EAGER_INVS="TypeOK AtMostOneDisc RegisterOnce NoCrash OwnClose ClosedForACause GoneAfterDisc WireOrdered AllWritten"
INVS="$EAGER_INVS" mkcfg MCConn_q_rc_eager.cfg    2  1  0  0  "$N"  "$N" 0  TRUE  TRUE  FALSE FALSE FALSE eager  FALSE FALSE FALSE FALSE FALSE FALSE Spec "$LIVE"
INVS="$EAGER_INVS" mkcfg MCConn_t_rc_eager.cfg    2  1  1  0  "$U1" "$N" 0  TRUE  TRUE  FALSE FALSE FALSE eager  FALSE FALSE FALSE FALSE FALSE FALSE SafetySpec ""
INVS="$EAGER_INVS" mkcfg MCConn_defect_earlyunlock.cfg 2 1 0 0 "$N" "$N" 0 TRUE TRUE FALSE FALSE FALSE eager FALSE FALSE FALSE FALSE FALSE FALSE Spec "$LIVE" TRUE
# defect variants: TLC must report a violation (sensitivity of the model, DESIGN 6.4)
mkcfg MCConn_defect_drainonce.cfg   1  1  3  2  "$U1" "$N" 0  TRUE  TRUE  FALSE FALSE FALSE none   FALSE FALSE TRUE  FALSE FALSE FALSE Spec "$LIVE"
mkcfg MCConn_defect_staleclose.cfg  2  1  1  0  "$N"  "$N" 0  TRUE  TRUE  FALSE FALSE FALSE handler FALSE FALSE FALSE TRUE FALSE FALSE Spec "$LIVE"
mkcfg MCConn_defect_nowatcher.cfg   1  1  3  2  "$N"  "$N" 0  TRUE  FALSE TRUE  FALSE TRUE  none   FALSE FALSE FALSE FALSE TRUE FALSE Spec "$LIVE"
mkcfg MCConn_defect_initcheck.cfg   1  1  1  0  "$U1" "$N" 0  TRUE  FALSE FALSE FALSE FALSE none   TRUE  FALSE FALSE FALSE FALSE TRUE SafetySpec ""
