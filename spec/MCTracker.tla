------------------------------ MODULE MCTracker ------------------------------
(* Model-checking / edge-emission wrapper for Tracker.tla.  The universes are  *)
(* operators (cfg files cannot hold tuples); one cfg per universe.              *)
EXTENDS Tracker, Json

\* quick closure: 3 names x 2 channels, one privilege flag
Q_Names == {"a", "b", ""}
Q_Chans == {"#x", "#y"}
Q_CModeCalls == {[m |-> <<"+", "o">>, a |-> <<n>>] : n \in Q_Names} \cup
                {[m |-> <<"-", "o">>, a |-> <<n>>] : n \in Q_Names}

\* thorough closure: adds the empty nick and channel names
T_Names == {"a", "b", "c", ""}
T_Chans == {"#x", "#y", ""}
T_CModeCalls == {[m |-> <<"+", "o">>, a |-> <<n>>] : n \in T_Names} \cup
                {[m |-> <<"-", "o">>, a |-> <<n>>] : n \in T_Names}

\* attribute universe: two names, one channel, the whole attribute / mode alphabet
A_Names == {"a", "b"}
A_Chans == {"#x"}
A_Infos == {<<"id", "ho.st", "Real Name">>, <<"", "h2", "">>}
A_NModeStrs == {<<"+", "i">>, <<"-", "i">>, <<"+", "B", "o", "w">>, <<"-", "o", "+", "x", "z">>,
                <<"i">>, <<"+", "Q", "z">>, <<"-", "B", "w", "x", "z">>}
A_Topics == {"", "a topic: with words"}
A_CModeCalls ==
  {[m |-> <<"+", "n", "t">>, a |-> <<>>], [m |-> <<"-", "n", "+", "s", "p">>, a |-> <<>>],
   [m |-> <<"+", "m", "i", "O", "z", "r", "Z">>, a |-> <<>>], [m |-> <<"-", "m", "i", "O", "z", "r", "Z", "s", "p", "t">>, a |-> <<>>],
   [m |-> <<"+", "k">>, a |-> <<"sekrit">>], [m |-> <<"-", "k">>, a |-> <<>>], [m |-> <<"+", "k">>, a |-> <<>>],
   [m |-> <<"+", "l">>, a |-> <<"12">>], [m |-> <<"+", "l">>, a |-> <<"x">>], [m |-> <<"-", "l">>, a |-> <<>>],
   [m |-> <<"+", "l", "k">>, a |-> <<"5", "kk">>], [m |-> <<"+", "l">>, a |-> <<"-3">>],
   [m |-> <<"+", "o", "v">>, a |-> <<"a", "b">>], [m |-> <<"-", "o", "+", "h">>, a |-> <<"b", "a">>],
   [m |-> <<"+", "q", "a">>, a |-> <<"b", "b">>], [m |-> <<"-", "q", "a", "h", "v">>, a |-> <<"b", "b", "a", "b">>],
   [m |-> <<"o">>, a |-> <<"a">>], [m |-> <<"+", "o">>, a |-> <<>>], [m |-> <<"+", "X", "n">>, a |-> <<>>],
   [m |-> <<"+", "n", "o">>, a |-> <<"zz">>],
   [m |-> <<"+", "b", "o">>, a |-> <<"*!*@bad.host", "a">>], [m |-> <<"-", "e", "+", "v">>, a |-> <<"a", "b">>],
   [m |-> <<"+", "I", "k">>, a |-> <<"b", "kk">>], [m |-> <<"+", "b">>, a |-> <<>>]}

\* simulation universe: larger name space, a mix of everything
S_Names == {"a", "b", "c", "d", "e", "f", ""}
S_Chans == {"#x", "#y", "#z", "&w", ""}
S_CModeCalls == A_CModeCalls \cup {[m |-> <<"+", "o">>, a |-> <<n>>] : n \in S_Names}
                             \cup {[m |-> <<"-", "v", "+", "s">>, a |-> <<n>>] : n \in S_Names}

\* small attribute closure: every attribute kind once, alphabets kept minimal so that the
\* closure stays in the thousands of states (the full alphabets are covered by simulation)
B_Names == {"a", "b"}
B_Chans == {"#x"}
B_Infos == {<<"id", "ho.st", "Real Name">>}
B_NModeStrs == {<<"+", "i">>, <<"-", "i">>}
B_Topics == {"a topic: with words"}
B_CModeCalls ==
  {[m |-> <<"+", "n">>, a |-> <<>>], [m |-> <<"-", "n">>, a |-> <<>>],
   [m |-> <<"+", "k">>, a |-> <<"sekrit">>], [m |-> <<"-", "k">>, a |-> <<>>],
   [m |-> <<"+", "l">>, a |-> <<"12">>], [m |-> <<"-", "l">>, a |-> <<>>],
   [m |-> <<"+", "o", "v">>, a |-> <<"a", "b">>], [m |-> <<"-", "o", "v">>, a |-> <<"a", "b">>]}

None == {}

\* every transition of the state graph as one JSON line
\* (the successor is omitted when the call leaves the state unchanged)
Emit == PrintT("EDGE " \o (IF StateRec' = StateRec
                             THEN ToJson([f |-> StateRec, o |-> lastOp'])
                             ELSE ToJson([f |-> StateRec, o |-> lastOp', t |-> StateRec'])))
View == state
=============================================================================
