SPECIFICATION Spec
CONSTANTS
  Lens = {0, 60, 510}
  Gaps = {0, 1, 120, 1200, 7200}
  MaxSends = 5
INVARIANTS NeverNegative Bounded WindowBound
PROPERTY HeldIffOver
CHECK_DEADLOCK FALSE
