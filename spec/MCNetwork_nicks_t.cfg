SPECIFICATION Spec
CONSTANTS
  AllowToggle <- Yes
  Users <- N_Users
  Chans <- N_Chans
  NickPool <- N_Pool
  MyNicks <- N_MyNicks
  MaxSteps = 5
VIEW MCView
INVARIANT TypeOK
ACTION_CONSTRAINT Emit
CHECK_DEADLOCK FALSE
