------------------------------- MODULE MCFlood -------------------------------
EXTENDS Flood, Json
Emit == IF lastOp'.op = "send" THEN PrintT("EDGE " \o ToJson(lastOp')) ELSE TRUE
PenaltyView == <<b, idle>>
=============================================================================
