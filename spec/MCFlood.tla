------------------------------- MODULE MCFlood -------------------------------
EXTENDS Flood, Json

RECURSIVE Sum(_, _, _)
Sum(h, i, j) == IF i > j THEN 0 ELSE h[i].c + Sum(h, i + 1, j)
\* "their total charge never exceeds the wall-clock time between the first and last write by
\*  more than 10 s plus two lines' charges" (here: the first and the last line of the run)
WindowBound ==
  \A i, j \in 1..Len(hist) : i <= j =>
     Sum(hist, i, j) <= (hist[j].w - hist[i].w) + Threshold + hist[i].c + hist[j].c


Emit == IF lastOp'.op = "send" THEN PrintT("EDGE " \o ToJson(lastOp')) ELSE TRUE
PenaltyView == <<b, idle>>
=============================================================================
