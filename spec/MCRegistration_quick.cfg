INIT Init
NEXT Next
CONSTANT Thorough = FALSE
INVARIANT Emit
CHECK_DEADLOCK FALSE
