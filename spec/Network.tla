------------------------------ MODULE Network ------------------------------
(***************************************************************************)
(* Ground truth: a model IRC network as seen from one client (properties   *)
(* C13 and C17, the registration part of C18).  The network knows          *)
(*   - the nick it uses for the client (snick) and what the client last    *)
(*     asked for while registering,                                        *)
(*   - the other users (current nick, ident, host),                        *)
(*   - the channels the client is on: members with their TRUE privileges,  *)
(*     topic, modes,                                                       *)
(* and, next to the truth, what the protocol has REVEALED to the client so *)
(* far (privileges shown by NAMES - only the highest prefix - and by MODE  *)
(* changes; user@host from JOIN prefixes and WHO replies; channel modes    *)
(* from the 324 reply and MODE changes; the topic from 332 / TOPIC).       *)
(*                                                                         *)
(* Every action is a protocol-conformant server event.  It records in      *)
(* lastOp the lines the server sends and the lines a conforming client     *)
(* must answer with (NICK after a collision; the MODE / WHO requests the   *)
(* tracker makes are answered by the events Reply324 / ReplyWho).  View    *)
(* is what a conforming state tracker must hold after the event: exactly   *)
(* the revealed part of the truth.  Every edge of TLC's state graph is     *)
(* replayed on a real client with state tracking (and, for the nick part,  *)
(* without) by harness/netw.                                               *)
(***************************************************************************)
EXTENDS Naturals, Sequences, FiniteSets, TLC, Strings

CONSTANTS
  Users,      \* identities of the other users, e.g. {"u1", "u2"}
  Chans,      \* channel names, e.g. {"#x", "#y"}
  NickPool,   \* nicks the other users may use
  MyNicks,    \* nicks the client may ask for / be forced to after registration
  MaxSteps    \* bound on the number of events (keeps the graph finite)

Me0 == "me"                                 \* the nick the client is configured with
Ident(u) == "i" \o u                        \* fixed user@host of the other users
Host(u) == u \o ".example.org"
MyIdent == "ident"
MyHost == "client.host"

\* DefaultNewNick of the client: the last character is "incremented"
Seq61 == "ABCDEFGHIJKLMNOPQRSTUVWXYZ[\\]^_`abcdefghijklmnopqrstuvwxyz{|}"
Digits == "0123456789"
Inc(c) ==
  LET p == Index(Seq61, c)  d == Index(Digits, c) IN
  IF d > 0 THEN Ch(Digits, (d % 10) + 1)
  ELSE IF p > 0 THEN Ch(Seq61, (p % 61) + 1)
  ELSE "_"
NewNick(n) == IF n = "" THEN "_" ELSE SubSeq(n, 1, Len(n) - 1) \o Inc(Ch(n, Len(n)))

Privs == {"o", "v"}                          \* (a configuration may override Privs and PrivSets: owner q, admin a, half-op h)
FlagSet == {"m", "s"}                        \* boolean channel modes the model server changes
Flags0(c) == IF c = "#x" THEN {"n", "t"} ELSE {"s"}   \* modes of a channel when the client joins it
FlagStr(S) == JoinWith(SetToSortSeq(S, LAMBDA a, b : Index("imnpstz", a) < Index("imnpstz", b)), "")
ListModes == {"b", "e", "I"}

VARIABLES
  phase,    \* "pre" (registering) | "up"
  tried,    \* the nick the client has asked for most recently
  snick,    \* the nick the server uses for the client ("" before the welcome)
  nick,     \* [Users -> current nick]
  mem,      \* [channels the client is on -> [member nick -> true privileges]]
  kn,       \* same shape: privileges revealed so far
  uh,       \* set of user nicks whose user@host a WHO reply has revealed (the tracker must know it)
  jn,       \* set of user nicks whose user@host a JOIN prefix has shown (the tracker may know it)
  topic, ktopic,   \* [chan -> topic] truth / revealed
  key, kkey,       \* [chan -> key]   truth / revealed
  lim, klim,       \* [chan -> user limit (0: none)] truth / revealed
  flags, kflags,   \* [chan -> set of boolean channel modes] truth / what the tracker can know (MODE changes seen, 324 reply)
  pendMode, pendWho,  \* requests of the tracker not yet answered by the server
  pendNick, \* a NICK request of the client not yet answered ("" none)
  cloak,    \* the server now shows a different host for the client (a cloak / vhost applied after the welcome)
  trk,      \* state tracking currently enabled (Enable/DisableStateTracking may be called while on no channel)
  steps,
  lastOp

state == <<phase, tried, snick, nick, mem, kn, uh, jn, topic, ktopic, key, kkey, lim, klim, flags, kflags, pendMode, pendWho, pendNick, trk, cloak, steps>>
vars == <<state, lastOp>>

On == DOMAIN mem
NicksOf(c) == DOMAIN mem[c]
UsedNicks == {nick[u] : u \in Users} \cup {snick}
UserOf(n) == CHOOSE u \in Users : nick[u] = n
Shares(n) == \E c \in On : n \in NicksOf(c)      \* the user shares a channel with the client

Restr(f, S) == [x \in S |-> f[x]]
Put(f, x, v) == [y \in DOMAIN f \cup {x} |-> IF y = x THEN v ELSE f[y]]
Ren(f, o, n) == [x \in (DOMAIN f \ {o}) \cup {n} |-> IF x = n THEN f[o] ELSE f[x]]

Src(n) == IF n = snick THEN ":" \o n \o "!" \o MyIdent \o "@" \o (IF cloak THEN "cloak.users.example.net" ELSE MyHost)
          ELSE ":" \o n \o "!" \o Ident(UserOf(n)) \o "@" \o Host(UserOf(n))
Srv == ":irc.example.net"

\* the highest prefix NAMES shows for a privilege set
\* NAMES and WHO show only the highest privilege: ~ owner, & admin, @ op, % half-op, + voice
Highest(p) == IF "q" \in p THEN "q" ELSE IF "a" \in p THEN "a" ELSE IF "o" \in p THEN "o" ELSE IF "h" \in p THEN "h" ELSE IF "v" \in p THEN "v" ELSE ""
Prefix(p) == CASE Highest(p) = "q" -> "~" [] Highest(p) = "a" -> "&" [] Highest(p) = "o" -> "@" [] Highest(p) = "h" -> "%" [] Highest(p) = "v" -> "+" [] OTHER -> ""
Shown(p) == IF Highest(p) = "" THEN {} ELSE {Highest(p)}

Op(name, out, expect) == lastOp' = [ev |-> name, lines |-> out, expect |-> expect]
Step == steps < MaxSteps /\ steps' = steps + 1

Init ==
  /\ phase = "pre" /\ tried = Me0 /\ snick = "" /\ nick \in [Users -> NickPool] /\ (\A u, v \in Users : u # v => nick[u] # nick[v])
  /\ mem = <<>> /\ kn = <<>> /\ uh = {} /\ jn = {} /\ topic = <<>> /\ ktopic = <<>> /\ key = <<>> /\ kkey = <<>> /\ lim = <<>> /\ klim = <<>> /\ flags = <<>> /\ kflags = <<>>
  /\ pendMode = {} /\ pendWho = {} /\ pendNick = "" /\ trk = TRUE /\ cloak = FALSE /\ steps = 0
  /\ lastOp = [ev |-> "connect", lines |-> <<>>, expect |-> <<"NICK " \o Me0>>]

-----------------------------------------------------------------------------
(* Registration and the client's own nick (C17) *)

\* 433 before the welcome: the nick the client asked for is in use; it must ask for NewNick(tried)
Collide ==
  /\ phase = "pre" /\ Step
  /\ tried' = NewNick(tried)
  /\ Op("collide", <<Srv \o " 433 * " \o tried \o " :Nickname is already in use.">>, <<"NICK " \o NewNick(tried)>>)
  /\ UNCHANGED <<phase, snick, nick, mem, kn, uh, jn, topic, ktopic, key, kkey, lim, klim, flags, kflags, pendMode, pendWho, pendNick, trk, cloak>>

\* 001: the server confirms the nick asked for, or imposes another one
Welcome(n) ==
  /\ phase = "pre" /\ Step /\ n \notin {nick[u] : u \in Users}
  /\ phase' = "up" /\ snick' = n /\ tried' = n
  /\ Op("welcome", <<Srv \o " 001 " \o n \o " :Welcome to the Internet Relay Network " \o n \o "!" \o MyIdent \o "@" \o MyHost>>, <<>>)
  /\ UNCHANGED <<nick, mem, kn, uh, jn, topic, ktopic, key, kkey, lim, klim, flags, kflags, pendMode, pendWho, pendNick, trk, cloak>>

\* the client asks for another nick (the harness calls Nick(n)) ...
ClientNick(n) ==
  /\ phase = "up" /\ pendNick = "" /\ Step /\ n # snick
  /\ pendNick' = n
  /\ Op("clientnick", <<>>, <<"NICK " \o n>>)
  /\ UNCHANGED <<phase, tried, snick, nick, mem, kn, uh, jn, topic, ktopic, key, kkey, lim, klim, flags, kflags, pendMode, pendWho, trk, cloak>>
\* ... the server confirms it ...
MyRename(n) ==
  /\ mem' = [c \in On |-> IF snick \in NicksOf(c) THEN Ren(mem[c], snick, n) ELSE mem[c]]
  /\ kn' = [c \in On |-> IF snick \in NicksOf(c) THEN Ren(kn[c], snick, n) ELSE kn[c]]
  /\ snick' = n
NickConfirm ==
  /\ phase = "up" /\ pendNick # "" /\ pendNick \notin UsedNicks /\ Step
  /\ MyRename(pendNick) /\ pendNick' = ""
  /\ Op("nickconfirm", <<Src(snick) \o " NICK :" \o pendNick>>, <<>>)
  /\ UNCHANGED <<phase, tried, nick, uh, jn, topic, ktopic, key, kkey, lim, klim, flags, kflags, pendMode, pendWho, trk, cloak>>
\* ... or refuses it: the client asks for NewNick(refused) next
NickRefuse ==
  /\ phase = "up" /\ pendNick # "" /\ Step /\ NewNick(pendNick) # snick
  /\ pendNick' = NewNick(pendNick)
  /\ Op("nickrefuse", <<Srv \o " 433 " \o snick \o " " \o pendNick \o " :Nickname is already in use.">>, <<"NICK " \o NewNick(pendNick)>>)
  /\ UNCHANGED <<phase, tried, snick, nick, mem, kn, uh, jn, topic, ktopic, key, kkey, lim, klim, flags, kflags, pendMode, pendWho, trk, cloak>>
\* the server changes the client's nick on its own
NickForce(n) ==
  /\ phase = "up" /\ n \notin UsedNicks /\ Step
  /\ n # pendNick     \* (a server does not impose the very nick it is about to refuse)
  /\ MyRename(n)
  /\ Op("nickforce", <<Src(snick) \o " NICK " \o n>>, <<>>)
  /\ UNCHANGED <<phase, tried, nick, uh, jn, topic, ktopic, key, kkey, lim, klim, flags, kflags, pendMode, pendWho, pendNick, trk, cloak>>

-----------------------------------------------------------------------------
(* Channels (C13) *)

\* the client joins c: JOIN, topic, NAMES.  The tracker asks for MODE c and WHO c.
MeJoin(c, others, t, k) ==
  /\ phase = "up" /\ c \notin On /\ trk /\ Step
  /\ LET m == [n \in {nick[u] : u \in DOMAIN others} \cup {snick} |->
                 \* a client that creates the channel is made its operator
                 IF n = snick THEN (IF DOMAIN others = {} THEN {"o"} ELSE {}) ELSE others[UserOf(n)]]
         names == JoinWith(SetToSeq({Prefix(m[n]) \o n : n \in DOMAIN m}), " ")
     IN /\ mem' = Put(mem, c, m)
        /\ kn' = Put(kn, c, [n \in DOMAIN m |-> Shown(m[n])])
        /\ topic' = Put(topic, c, t) /\ ktopic' = Put(ktopic, c, t)
        /\ key' = Put(key, c, k) /\ kkey' = Put(kkey, c, "")
        /\ lim' = Put(lim, c, IF c = "#x" THEN 7 ELSE 0) /\ klim' = Put(klim, c, 0)
        /\ flags' = Put(flags, c, Flags0(c)) /\ kflags' = Put(kflags, c, {})
        /\ pendMode' = pendMode \cup {c} /\ pendWho' = pendWho \cup {c}
        /\ Op("mejoin",
              <<Src(snick) \o " JOIN " \o c>>
                \o (IF t = "" THEN <<>> ELSE <<Srv \o " 332 " \o snick \o " " \o c \o " :" \o t>>)
                \o <<Srv \o " 353 " \o snick \o " = " \o c \o " :" \o names, Srv \o " 366 " \o snick \o " " \o c \o " :End of /NAMES list.">>,
              <<"MODE " \o c, "WHO " \o c>>)
  /\ UNCHANGED <<phase, tried, snick, nick, uh, jn, pendNick, trk, cloak>>

\* a NAMES reply at any later time (the user asked for it): the highest privilege of every member is shown again
NamesRefresh(c) ==
  /\ c \in On /\ Step
  /\ kn' = [kn EXCEPT ![c] = [n \in DOMAIN @ |-> @[n] \cup Shown(mem[c][n])]]
  /\ Op("namesrefresh",
        <<Srv \o " 353 " \o snick \o " = " \o c \o " :" \o JoinWith(SetToSeq({Prefix(mem[c][n]) \o n : n \in NicksOf(c)}), " "),
          Srv \o " 366 " \o snick \o " " \o c \o " :End of /NAMES list.">>, <<>>)
  /\ UNCHANGED <<phase, tried, snick, nick, mem, uh, jn, topic, ktopic, key, kkey, lim, klim, flags, kflags, pendMode, pendWho, pendNick, trk, cloak>>

\* the server answers MODE c with 324
Reply324(c) ==
  /\ c \in pendMode /\ c \in On /\ Step
  /\ pendMode' = pendMode \ {c} /\ kkey' = [kkey EXCEPT ![c] = key[c]] /\ klim' = [klim EXCEPT ![c] = lim[c]]
  /\ kflags' = [kflags EXCEPT ![c] = @ \cup flags[c]]
  /\ Op("reply324", <<Srv \o " 324 " \o snick \o " " \o c \o " +" \o FlagStr(flags[c]) \o (IF lim[c] > 0 THEN "l" ELSE "") \o (IF key[c] # "" THEN "k" ELSE "")
                      \o (IF lim[c] > 0 THEN " " \o ToString(lim[c]) ELSE "") \o (IF key[c] # "" THEN " " \o key[c] ELSE "")>>, <<>>)
  /\ UNCHANGED <<phase, tried, snick, nick, mem, kn, uh, jn, topic, ktopic, key, lim, flags, pendWho, pendNick, trk, cloak>>

\* ... and WHO c with one 352 per member and a 315: user@host of every member is revealed
ReplyWho(c) ==
  /\ c \in pendWho /\ c \in On /\ Step
  /\ pendWho' = pendWho \ {c}
  /\ uh' = uh \cup (NicksOf(c) \ {snick}) /\ jn' = jn
  /\ LET ms == SetToSeq(NicksOf(c))
         Line(n) == IF n = snick
                      THEN Srv \o " 352 " \o snick \o " " \o c \o " " \o MyIdent \o " " \o MyHost \o " irc.example.net " \o n \o " H :0 Real Name"
                      ELSE Srv \o " 352 " \o snick \o " " \o c \o " " \o Ident(UserOf(n)) \o " " \o Host(UserOf(n)) \o " irc.example.net " \o n \o " H" \o Prefix(mem[c][n]) \o " :0 " \o UserOf(n)
     IN Op("replywho", [i \in 1..Len(ms) |-> Line(ms[i])] \o <<Srv \o " 315 " \o snick \o " " \o c \o " :End of /WHO list.">>, <<>>)
  /\ UNCHANGED <<phase, tried, snick, nick, mem, kn, topic, ktopic, key, kkey, lim, klim, flags, kflags, pendMode, pendNick, trk, cloak>>

\* another user joins a channel the client is on (the tracker asks WHO nick when it is new)
OtherJoin(u, c) ==
  /\ c \in On /\ nick[u] \notin NicksOf(c) /\ Step
  /\ mem' = [mem EXCEPT ![c] = Put(@, nick[u], {})] /\ kn' = [kn EXCEPT ![c] = Put(@, nick[u], {})]
  /\ jn' = jn \cup {nick[u]} /\ uh' = uh
  /\ Op("otherjoin", <<Src(nick[u]) \o " JOIN :" \o c>>, IF Shares(nick[u]) THEN <<>> ELSE <<"WHO " \o nick[u]>>)
  /\ UNCHANGED <<phase, tried, snick, nick, topic, ktopic, key, kkey, lim, klim, flags, kflags, pendMode, pendWho, pendNick, trk, cloak>>

Forget(S, n, m1) == IF \E c \in DOMAIN m1 : n \in DOMAIN m1[c] THEN S ELSE S \ {n}
Leave(n, c) ==
  LET m1 == [mem EXCEPT ![c] = Restr(@, NicksOf(c) \ {n})] IN
  /\ mem' = m1 /\ kn' = [kn EXCEPT ![c] = Restr(@, NicksOf(c) \ {n})]
  /\ uh' = Forget(uh, n, m1) /\ jn' = Forget(jn, n, m1)

OtherPart(u, c) ==
  /\ c \in On /\ nick[u] \in NicksOf(c) /\ Step /\ Leave(nick[u], c)
  /\ Op("otherpart", <<Src(nick[u]) \o " PART " \o c \o " :bye">>, <<>>)
  /\ UNCHANGED <<phase, tried, snick, nick, topic, ktopic, key, kkey, lim, klim, flags, kflags, pendMode, pendWho, pendNick, trk, cloak>>
OtherKicked(u, c, by) ==
  /\ c \in On /\ nick[u] \in NicksOf(c) /\ by \in NicksOf(c) /\ Step /\ Leave(nick[u], c)
  /\ Op("otherkicked", <<Src(by) \o " KICK " \o c \o " " \o nick[u] \o " :out">>, <<>>)
  /\ UNCHANGED <<phase, tried, snick, nick, topic, ktopic, key, kkey, lim, klim, flags, kflags, pendMode, pendWho, pendNick, trk, cloak>>
OtherQuit(u) ==
  /\ Shares(nick[u]) /\ Step
  /\ mem' = [c \in On |-> Restr(mem[c], NicksOf(c) \ {nick[u]})]
  /\ kn' = [c \in On |-> Restr(kn[c], NicksOf(c) \ {nick[u]})]
  /\ uh' = uh \ {nick[u]} /\ jn' = jn \ {nick[u]}
  /\ Op("otherquit", <<Src(nick[u]) \o " QUIT :Quit: gone">>, <<>>)
  /\ UNCHANGED <<phase, tried, snick, nick, topic, ktopic, key, kkey, lim, klim, flags, kflags, pendMode, pendWho, pendNick, trk, cloak>>
\* a user the client can see changes nick
OtherNick(u, n) ==
  /\ Shares(nick[u]) /\ n \in NickPool /\ n \notin UsedNicks /\ Step
  /\ nick' = [nick EXCEPT ![u] = n]
  /\ mem' = [c \in On |-> IF nick[u] \in NicksOf(c) THEN Ren(mem[c], nick[u], n) ELSE mem[c]]
  /\ kn' = [c \in On |-> IF nick[u] \in NicksOf(c) THEN Ren(kn[c], nick[u], n) ELSE kn[c]]
  /\ uh' = IF nick[u] \in uh THEN (uh \ {nick[u]}) \cup {n} ELSE uh
  /\ jn' = IF nick[u] \in jn THEN (jn \ {nick[u]}) \cup {n} ELSE jn
  /\ Op("othernick", <<Src(nick[u]) \o " NICK :" \o n>>, <<>>)
  /\ UNCHANGED <<phase, tried, snick, topic, ktopic, key, kkey, lim, klim, flags, kflags, pendMode, pendWho, pendNick, trk, cloak>>
\* a user the client cannot see changes nick: nothing is sent
HiddenNick(u, n) ==
  /\ ~Shares(nick[u]) /\ phase = "up" /\ n \in NickPool /\ n \notin UsedNicks /\ n # pendNick /\ Step
  /\ nick' = [nick EXCEPT ![u] = n]
  /\ Op("hiddennick", <<>>, <<>>)
  /\ UNCHANGED <<phase, tried, snick, mem, kn, uh, jn, topic, ktopic, key, kkey, lim, klim, flags, kflags, pendMode, pendWho, pendNick, trk, cloak>>

\* the client leaves or is kicked: the channel and every user no longer shared are forgotten
DropChan(c) ==
  LET m1 == Restr(mem, On \ {c}) IN
  /\ mem' = m1 /\ kn' = Restr(kn, On \ {c})
  /\ topic' = Restr(topic, On \ {c}) /\ ktopic' = Restr(ktopic, On \ {c})
  /\ key' = Restr(key, On \ {c}) /\ kkey' = Restr(kkey, On \ {c})
  /\ lim' = Restr(lim, On \ {c}) /\ klim' = Restr(klim, On \ {c})
  /\ flags' = Restr(flags, On \ {c}) /\ kflags' = Restr(kflags, On \ {c})
  /\ uh' = {n \in uh : \E d \in DOMAIN m1 : n \in DOMAIN m1[d]}
  /\ jn' = {n \in jn : \E d \in DOMAIN m1 : n \in DOMAIN m1[d]}
  /\ pendMode' = pendMode \ {c} /\ pendWho' = pendWho \ {c}
MePart(c) ==
  /\ c \in On /\ Step /\ DropChan(c)
  /\ Op("mepart", <<Src(snick) \o " PART " \o c>>, <<>>)
  /\ UNCHANGED <<phase, tried, snick, nick, pendNick, trk, cloak>>
MeKicked(c, by) ==
  /\ c \in On /\ by \in NicksOf(c) \ {snick} /\ Step /\ DropChan(c)
  /\ Op("mekicked", <<Src(by) \o " KICK " \o c \o " " \o snick \o " :you">>, <<>>)
  /\ UNCHANGED <<phase, tried, snick, nick, pendNick, trk, cloak>>

\* privilege and mode changes, topic changes
PrivChange(c, n, sign, p, by) ==
  /\ c \in On /\ n \in NicksOf(c) /\ by \in NicksOf(c) /\ Step
  /\ mem' = [mem EXCEPT ![c][n] = IF sign = "+" THEN @ \cup {p} ELSE @ \ {p}]
  /\ kn' = [kn EXCEPT ![c][n] = IF sign = "+" THEN @ \cup {p} ELSE @ \ {p}]
  /\ Op("privchange", <<Src(by) \o " MODE " \o c \o " " \o sign \o p \o " " \o n>>, <<>>)
  /\ UNCHANGED <<phase, tried, snick, nick, uh, jn, topic, ktopic, key, kkey, lim, klim, flags, kflags, pendMode, pendWho, pendNick, trk, cloak>>
\* two changes in one MODE line (argument-taking modes in sequence; a key removal comes last)
DoubleChange(c, n, k, by) ==
  /\ c \in On /\ n \in NicksOf(c) /\ by \in NicksOf(c) /\ Step
  /\ mem' = [mem EXCEPT ![c][n] = @ \cup {"v"}] /\ kn' = [kn EXCEPT ![c][n] = @ \cup {"v"}]
  /\ key' = [key EXCEPT ![c] = k] /\ kkey' = [kkey EXCEPT ![c] = k]
  /\ Op("doublechange", <<Src(by) \o (IF k = "" THEN " MODE " \o c \o " +v-k " \o n ELSE " MODE " \o c \o " +kv " \o k \o " " \o n)>>, <<>>)
  /\ UNCHANGED <<phase, tried, snick, nick, uh, jn, topic, ktopic, lim, klim, flags, kflags, pendMode, pendWho, pendNick, trk, cloak>>
\* a limit and a privilege in one line (the limit's argument comes first), or the limit removed
LimitChange(c, n, L, by) ==
  /\ c \in On /\ n \in NicksOf(c) /\ by \in NicksOf(c) /\ Step
  /\ lim' = [lim EXCEPT ![c] = L] /\ klim' = [klim EXCEPT ![c] = L]
  /\ IF L > 0 THEN /\ mem' = [mem EXCEPT ![c][n] = @ \cup {"o"}] /\ kn' = [kn EXCEPT ![c][n] = @ \cup {"o"}]
              ELSE UNCHANGED <<mem, kn>>
  /\ Op("limitchange", <<Src(by) \o (IF L > 0 THEN " MODE " \o c \o " +lo " \o ToString(L) \o " " \o n ELSE " MODE " \o c \o " -l")>>, <<>>)
  /\ UNCHANGED <<phase, tried, snick, nick, uh, jn, topic, ktopic, key, kkey, flags, kflags, pendMode, pendWho, pendNick, trk, cloak>>
TopicChange(c, t, by) ==
  /\ c \in On /\ by \in NicksOf(c) /\ t # topic[c] /\ Step
  /\ topic' = [topic EXCEPT ![c] = t] /\ ktopic' = [ktopic EXCEPT ![c] = t]
  /\ Op("topicchange", <<Src(by) \o " TOPIC " \o c \o " :" \o t>>, <<>>)
  /\ UNCHANGED <<phase, tried, snick, nick, mem, kn, uh, jn, key, kkey, lim, klim, flags, kflags, pendMode, pendWho, pendNick, trk, cloak>>

\* boolean channel modes: one, or one set and another cleared in the same line
FlagChange(c, f, g, by) ==
  /\ c \in On /\ by \in NicksOf(c) /\ Step /\ f \in FlagSet /\ g \in FlagSet \cup {""} /\ g # f
  /\ flags' = [flags EXCEPT ![c] = (@ \cup {f}) \ {g}] /\ kflags' = [kflags EXCEPT ![c] = (@ \cup {f}) \ {g}]
  /\ Op("flagchange", <<Src(by) \o " MODE " \o c \o " +" \o f \o (IF g = "" THEN "" ELSE "-" \o g)>>, <<>>)
  /\ UNCHANGED <<phase, tried, snick, nick, mem, kn, uh, jn, topic, ktopic, key, kkey, lim, klim, pendMode, pendWho, pendNick, trk, cloak>>
\* a list mode (ban, ban exception, invite exception: they take a mask) and a privilege in one line:
\* the mask belongs to the list mode, the nick to the privilege.  Lists are not tracked.
ListChange(c, n, L, sign, by) ==
  /\ c \in On /\ n \in NicksOf(c) /\ by \in NicksOf(c) /\ Step
  /\ LET p == IF sign = "+" THEN "o" ELSE "v" IN
       /\ mem' = [mem EXCEPT ![c][n] = @ \cup {p}] /\ kn' = [kn EXCEPT ![c][n] = @ \cup {p}]
       /\ Op("listchange", <<Src(by) \o " MODE " \o c \o " " \o sign \o L \o "+" \o p \o " *!*@bad.example.org " \o n>>, <<>>)
  /\ UNCHANGED <<phase, tried, snick, nick, uh, jn, topic, ktopic, key, kkey, lim, klim, flags, kflags, pendMode, pendWho, pendNick, trk, cloak>>

\* DisableStateTracking / EnableStateTracking in mid-session ("at a pinch while the client is not joined to
\* any channels"): the client keeps knowing its own nick, a re-enabled tracker starts from the current nick
AllowToggle == FALSE      \* (overridden by the configurations that exercise it)
\* the server hides the client's host after registration (396): from now on the client's own lines carry the cloak
Cloak ==
  /\ AllowToggle /\ phase = "up" /\ ~cloak /\ Step
  /\ cloak' = TRUE
  /\ Op("cloak", <<Srv \o " 396 " \o snick \o " cloak.users.example.net :is now your displayed host">>, <<>>)
  /\ UNCHANGED <<phase, tried, snick, nick, mem, kn, uh, jn, topic, ktopic, key, kkey, lim, klim, flags, kflags, pendMode, pendWho, pendNick, trk>>
TrackOff ==
  /\ AllowToggle /\ trk /\ On = {} /\ Step
  /\ trk' = FALSE /\ Op("trackoff", <<>>, <<>>)
  /\ UNCHANGED <<phase, tried, snick, nick, mem, kn, uh, jn, topic, ktopic, key, kkey, lim, klim, flags, kflags, pendMode, pendWho, pendNick, cloak>>
TrackOn ==
  /\ AllowToggle /\ ~trk /\ On = {} /\ Step
  /\ trk' = TRUE /\ Op("trackon", <<>>, <<>>)
  /\ UNCHANGED <<phase, tried, snick, nick, mem, kn, uh, jn, topic, ktopic, key, kkey, lim, klim, flags, kflags, pendMode, pendWho, pendNick, cloak>>

\* the user calls Connect although the client is connected: refused, and nothing the client knows may change
ConnectAgain ==
  /\ phase = "up" /\ Step /\ lastOp.ev # "connectagain"
  /\ Op("connectagain", <<>>, <<>>)
  /\ UNCHANGED <<phase, tried, snick, nick, mem, kn, uh, jn, topic, ktopic, key, kkey, lim, klim, flags, kflags, pendMode, pendWho, pendNick, trk, cloak>>

PrivSets == {{}, {"o"}, {"v"}, {"o", "v"}}
Next ==
  \/ Collide \/ NickConfirm \/ NickRefuse \/ TrackOff \/ TrackOn \/ Cloak \/ ConnectAgain
  \/ \E n \in MyNicks \cup {tried} : Welcome(n)
  \/ \E n \in MyNicks : ClientNick(n) \/ NickForce(n)
  \/ \E c \in Chans, S \in SUBSET Users : \E ps \in [S -> PrivSets] :
        MeJoin(c, ps, IF c = "#x" THEN "a topic" ELSE "", IF c = "#x" THEN "" ELSE "sekrit")
  \/ \E c \in Chans : Reply324(c) \/ ReplyWho(c) \/ MePart(c) \/ NamesRefresh(c)
  \/ \E u \in Users, c \in Chans : OtherJoin(u, c) \/ OtherPart(u, c)
  \/ \E u \in Users : OtherQuit(u)
  \/ \E u \in Users, n \in NickPool : OtherNick(u, n) \/ HiddenNick(u, n)
  \/ \E c \in Chans, u \in Users : OtherKicked(u, c, snick) \/ MeKicked(c, nick[u])
  \/ \E c \in Chans, n \in UsedNicks, sign \in {"+", "-"}, p \in Privs : PrivChange(c, n, sign, p, snick)
  \/ \E c \in Chans, n \in UsedNicks, k \in {"", "k2"} : DoubleChange(c, n, k, snick)
  \/ \E c \in Chans, t \in {"", "new: topic"} : TopicChange(c, t, snick)
  \/ \E c \in Chans, n \in UsedNicks, L \in {0, 12} : LimitChange(c, n, L, snick)
  \/ \E c \in Chans, f \in FlagSet, g \in FlagSet \cup {""} : FlagChange(c, f, g, snick)
  \/ \E c \in Chans, n \in UsedNicks, L \in ListModes, sign \in {"+", "-"} : ListChange(c, n, L, sign, snick)

Spec == Init /\ [][Next]_vars

-----------------------------------------------------------------------------
(* What a conforming client holds after the event *)

Visible == {n \in UsedNicks \ {snick} : Shares(n)}
View ==
  [me |-> snick,
   \* user@host: "must" be known after a WHO reply, "may" be known after a JOIN prefix, else unknown
   nicks |-> [n \in Visible |-> <<Ident(UserOf(n)), Host(UserOf(n)), IF n \in uh THEN "must" ELSE IF n \in jn THEN "may" ELSE "none">>],
   chans |-> [c \in On |-> [topic |-> ktopic[c], key |-> kkey[c], limit |-> klim[c], flags |-> FlagStr(kflags[c]), nicks |-> kn[c]]],
   trk |-> trk,
   up |-> phase = "up"]

\* C13: the revealed state never claims more than the truth, and covers exactly the client's channels
TypeOK ==
  /\ \A c \in On : snick \in NicksOf(c) /\ DOMAIN kn[c] = NicksOf(c) /\ \A n \in NicksOf(c) : kn[c][n] \subseteq mem[c][n]
  /\ uh \subseteq Visible /\ jn \subseteq Visible
  /\ DOMAIN flags = On /\ DOMAIN kflags = On /\ \A c \in On : kflags[c] \subseteq flags[c]
  /\ \A u, v \in Users : u # v => nick[u] # nick[v]
  /\ snick \notin {nick[u] : u \in Users}
=============================================================================
