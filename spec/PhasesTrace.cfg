SPECIFICATION TraceSpec
CONSTANTS
  NLines = 1
  Welcome = 1
  FgH = {"f1", "f2"}
  BgH = {"b1"}
  Outcomes = {"ret", "panic", "block"}
  BgBeforeInt = FALSE
  LoopLeavesEarly = FALSE
  NoRecover = FALSE
CONSTRAINT HW
POSTCONDITION Accepted
CHECK_DEADLOCK FALSE
