SPECIFICATION Spec
CONSTANTS
  NLines = 2
  Welcome = 0
  FgH = {"f1"}
  BgH = {"b1"}
  Outcomes = {"ret","panic"}
  BgBeforeInt = FALSE
  LoopLeavesEarly = FALSE
  NoRecover = TRUE
INVARIANTS OneLineAtATime InOrder ConnectedPlacement DiscAfterFg AppliedBeforeHandlers FgSeesNothingLater PanicsRecovered ExactlyOnce
PROPERTY AllDelivered
CHECK_DEADLOCK FALSE
