INIT Init
NEXT Next
CONSTANT Thorough = FALSE
INVARIANTS WF Emit
CHECK_DEADLOCK FALSE
