------------------------------- MODULE Tracker -------------------------------
(***************************************************************************)
(* The "plain relational model" of goirc's state.Tracker (property C12):   *)
(* a set of nicks and a set of channels with their attributes, plus a      *)
(* membership relation carrying per-channel privileges.  One action per    *)
(* method of the state.Tracker interface; every action records the         *)
(* operation, its arguments and its RESULT in lastOp, so that each edge of *)
(* TLC's state graph is one implementation test (edge replay), and each    *)
(* recorded call of the real tracker can be validated against the model    *)
(* (TrackerTrace.tla, linearizability for C14).                            *)
(*                                                                         *)
(* Values are immutable in TLA+, so the model *defines* snapshot semantics *)
(* (C14): what a call returned is the model value at that step, forever.   *)
(*                                                                         *)
(* Mode strings are sequences of one-character strings, mode flags and     *)
(* privileges are represented by their IRC mode characters.                *)
(***************************************************************************)
EXTENDS Integers, Sequences, FiniteSets, TLC

CONSTANTS
  Names,       \* nick names offered to every nick argument (may contain "")
  ChanNames,   \* channel names offered to every channel argument (may contain "")
  Me0,         \* the nick the tracker is created with
  Infos,       \* set of <<ident, host, name>> for NickInfo
  NModeStrs,   \* set of mode strings for NickModes
  Topics,      \* set of topics for Topic
  CModeCalls   \* set of [m |-> mode string, a |-> sequence of args] for ChannelModes

VARIABLES
  nicks,    \* set of tracked nick names
  me,       \* own nick (always in nicks)
  info,     \* [nicks -> <<ident, host, name>>]
  nmodes,   \* [nicks -> SUBSET NickFlagChars]
  chans,    \* set of tracked channel names
  topic,    \* [chans -> STRING]
  cflags,   \* [chans -> SUBSET ChanFlagChars]
  ckey,     \* [chans -> STRING]
  climit,   \* [chans -> Int]
  mem,      \* [chans -> [members -> SUBSET PrivChars]]   (membership with privileges)
  lastOp    \* [op, args, res] of the step that led here (observation only; not in the VIEW)

state == <<nicks, me, info, nmodes, chans, topic, cflags, ckey, climit, mem>>
vars  == <<nicks, me, info, nmodes, chans, topic, cflags, ckey, climit, mem, lastOp>>

NickFlagChars == {"B", "i", "o", "w", "x", "z"}
ChanFlagChars == {"p", "s", "t", "n", "m", "i", "O", "z", "r", "Z"}
PrivChars     == {"q", "a", "o", "h", "v"}

\* strconv.Atoi for the limit arguments used by the configurations; anything
\* that is not a decimal number yields 0.
Atoi(s) == CASE s = "5" -> 5 [] s = "7" -> 7 [] s = "12" -> 12 [] s = "-3" -> -3
             [] s = "0" -> 0 [] OTHER -> 0

NoInfo == <<"", "", "">>

-----------------------------------------------------------------------------
(* Snapshots (what the query methods return) *)

Members(c) == DOMAIN mem[c]
ChansOf(n) == {c \in chans : n \in Members(c)}

NickSnap(n) == [k |-> "nick", nick |-> n, ident |-> info[n][1], host |-> info[n][2],
                name |-> info[n][3], modes |-> nmodes[n],
                chans |-> [c \in ChansOf(n) |-> mem[c][n]]]
ChanSnap(c) == [k |-> "chan", name |-> c, topic |-> topic[c], flags |-> cflags[c],
                key |-> ckey[c], limit |-> climit[c], nicks |-> mem[c]]
Nil      == [k |-> "nil"]
PrivSnap(p) == [k |-> "privs", privs |-> p]

StateRec == [nicks |-> nicks, me |-> me, info |-> info, nmodes |-> nmodes, chans |-> chans,
             topic |-> topic, cflags |-> cflags, ckey |-> ckey, climit |-> climit, mem |-> mem]

-----------------------------------------------------------------------------
(* Helpers on functions *)

Restrict(f, S) == [x \in S |-> f[x]]
Rename(f, old, neu) == [x \in (DOMAIN f \ {old}) \cup {neu} |-> IF x = neu THEN f[old] ELSE f[x]]
Extend(f, x, v) == [y \in DOMAIN f \cup {x} |-> IF y = x THEN v ELSE f[y]]

\* mode-string parsing, transcribed from (*nick).parseModes
RECURSIVE NParse(_, _, _)
NParse(ms, op, fl) ==
  IF ms = <<>> THEN fl
  ELSE LET m == Head(ms) IN
       CASE m = "+" -> NParse(Tail(ms), TRUE, fl)
         [] m = "-" -> NParse(Tail(ms), FALSE, fl)
         [] m \in NickFlagChars -> NParse(Tail(ms), op, IF op THEN fl \cup {m} ELSE fl \ {m})
         [] OTHER -> NParse(Tail(ms), op, fl)

\* ... and from (*channel).parseModes.  st = [flags, key, limit, pr]
RECURSIVE CParse(_, _, _, _)
CParse(ms, op, args, st) ==
  IF ms = <<>> THEN st
  ELSE LET m == Head(ms)  rest == Tail(ms) IN
       CASE m = "+" -> CParse(rest, TRUE, args, st)
         [] m = "-" -> CParse(rest, FALSE, args, st)
         [] m \in ChanFlagChars ->
              CParse(rest, op, args, [st EXCEPT !.flags = IF op THEN @ \cup {m} ELSE @ \ {m}])
         [] m = "k" ->
              IF op /\ args # <<>> THEN CParse(rest, op, Tail(args), [st EXCEPT !.key = Head(args)])
              ELSE IF ~op THEN CParse(rest, op, args, [st EXCEPT !.key = ""])
              ELSE CParse(rest, op, args, st)
         [] m = "l" ->
              IF op /\ args # <<>> THEN CParse(rest, op, Tail(args), [st EXCEPT !.limit = Atoi(Head(args))])
              ELSE IF ~op THEN CParse(rest, op, args, [st EXCEPT !.limit = 0])
              ELSE CParse(rest, op, args, st)
         [] m \in PrivChars ->
              IF args # <<>> /\ Head(args) \in DOMAIN st.pr
                THEN CParse(rest, op, Tail(args),
                            [st EXCEPT !.pr[Head(args)] = IF op THEN @ \cup {m} ELSE @ \ {m}])
                ELSE CParse(rest, op, args, st)
         \* list modes (ban, ban exception, invite exception): not tracked, but they take their mask
         [] m \in {"b", "e", "I"} ->
              CParse(rest, op, IF args # <<>> THEN Tail(args) ELSE args, st)
         [] OTHER -> CParse(rest, op, args, st)

-----------------------------------------------------------------------------
(* State transformers shared by several methods *)

\* forget the nicks in D (none of them is me) everywhere
DropNicks(D, m1) ==
  /\ nicks' = nicks \ D
  /\ info' = Restrict(info, nicks \ D)
  /\ nmodes' = Restrict(nmodes, nicks \ D)
  /\ mem' = [c \in DOMAIN m1 |-> Restrict(m1[c], DOMAIN m1[c] \ D)]

\* forget the channels in C and every nick (other than me) that is thereby
\* left on no tracked channel although it was on one of the deleted ones
DropChans(C) ==
  LET keep == chans \ C
      was  == UNION {Members(c) : c \in C}
      orphans == {n \in was : n # me /\ \A d \in keep : n \notin Members(d)}
  IN /\ chans' = keep
     /\ topic' = Restrict(topic, keep) /\ cflags' = Restrict(cflags, keep)
     /\ ckey' = Restrict(ckey, keep) /\ climit' = Restrict(climit, keep)
     /\ DropNicks(orphans, Restrict(mem, keep))
     /\ me' = me

Same == UNCHANGED state
Op(o, a, r) == lastOp' = [op |-> o, args |-> a, res |-> r]

-----------------------------------------------------------------------------
(* Nick methods *)

NewNick(n) ==
  IF n = "" \/ n \in nicks
    THEN Same /\ Op("NewNick", <<n>>, Nil)
    ELSE /\ nicks' = nicks \cup {n}
         /\ info' = Extend(info, n, NoInfo) /\ nmodes' = Extend(nmodes, n, {})
         /\ UNCHANGED <<me, chans, topic, cflags, ckey, climit, mem>>
         /\ Op("NewNick", <<n>>, [k |-> "nick", nick |-> n, ident |-> "", host |-> "", name |-> "",
                                  modes |-> {}, chans |-> <<>>])

GetNick(n) == Same /\ Op("GetNick", <<n>>, IF n \in nicks THEN NickSnap(n) ELSE Nil)

ReNick(o, n) ==
  IF o \notin nicks \/ n \in nicks
    THEN Same /\ Op("ReNick", <<o, n>>, Nil)
    ELSE /\ nicks' = (nicks \ {o}) \cup {n}
         /\ me' = IF me = o THEN n ELSE me
         /\ info' = Rename(info, o, n) /\ nmodes' = Rename(nmodes, o, n)
         /\ mem' = [c \in chans |-> IF o \in Members(c) THEN Rename(mem[c], o, n) ELSE mem[c]]
         /\ UNCHANGED <<chans, topic, cflags, ckey, climit>>
         /\ Op("ReNick", <<o, n>>,
               [k |-> "nick", nick |-> n, ident |-> info[o][1], host |-> info[o][2], name |-> info[o][3],
                modes |-> nmodes[o], chans |-> [c \in ChansOf(o) |-> mem[c][o]]])

DelNick(n) ==
  IF n \notin nicks \/ n = me
    THEN Same /\ Op("DelNick", <<n>>, Nil)
    ELSE /\ DropNicks({n}, mem)
         /\ UNCHANGED <<me, chans, topic, cflags, ckey, climit>>
         \* the snapshot is taken after the memberships were removed
         /\ Op("DelNick", <<n>>, [k |-> "nick", nick |-> n, ident |-> info[n][1], host |-> info[n][2],
                                  name |-> info[n][3], modes |-> nmodes[n], chans |-> <<>>])

NickInfo(n, i) ==
  IF n \notin nicks
    THEN Same /\ Op("NickInfo", <<n, i[1], i[2], i[3]>>, Nil)
    ELSE /\ info' = [info EXCEPT ![n] = i]
         /\ UNCHANGED <<nicks, me, nmodes, chans, topic, cflags, ckey, climit, mem>>
         /\ Op("NickInfo", <<n, i[1], i[2], i[3]>>,
               [NickSnap(n) EXCEPT !.ident = i[1], !.host = i[2], !.name = i[3]])

NickModes(n, ms) ==
  IF n \notin nicks
    THEN Same /\ Op("NickModes", <<n, ms>>, Nil)
    ELSE LET fl == NParse(ms, FALSE, nmodes[n]) IN
         /\ nmodes' = [nmodes EXCEPT ![n] = fl]
         /\ UNCHANGED <<nicks, me, info, chans, topic, cflags, ckey, climit, mem>>
         /\ Op("NickModes", <<n, ms>>, [NickSnap(n) EXCEPT !.modes = fl])

(* Channel methods *)

NewChannel(c) ==
  IF c = "" \/ c \in chans
    THEN Same /\ Op("NewChannel", <<c>>, Nil)
    ELSE /\ chans' = chans \cup {c}
         /\ topic' = Extend(topic, c, "") /\ cflags' = Extend(cflags, c, {})
         /\ ckey' = Extend(ckey, c, "") /\ climit' = Extend(climit, c, 0)
         /\ mem' = Extend(mem, c, <<>>)
         /\ UNCHANGED <<nicks, me, info, nmodes>>
         /\ Op("NewChannel", <<c>>, [k |-> "chan", name |-> c, topic |-> "", flags |-> {},
                                     key |-> "", limit |-> 0, nicks |-> <<>>])

GetChannel(c) == Same /\ Op("GetChannel", <<c>>, IF c \in chans THEN ChanSnap(c) ELSE Nil)

DelChannel(c) ==
  IF c \notin chans
    THEN Same /\ Op("DelChannel", <<c>>, Nil)
    ELSE /\ DropChans({c})
         \* the snapshot is taken after the members were removed
         /\ Op("DelChannel", <<c>>, [ChanSnap(c) EXCEPT !.nicks = <<>>])

Topic(c, t) ==
  IF c \notin chans
    THEN Same /\ Op("Topic", <<c, t>>, Nil)
    ELSE /\ topic' = [topic EXCEPT ![c] = t]
         /\ UNCHANGED <<nicks, me, info, nmodes, chans, cflags, ckey, climit, mem>>
         /\ Op("Topic", <<c, t>>, [ChanSnap(c) EXCEPT !.topic = t])

ChannelModes(c, call) ==
  IF c \notin chans
    THEN Same /\ Op("ChannelModes", <<c, call.m, call.a>>, Nil)
    ELSE LET st == CParse(call.m, FALSE, call.a,
                          [flags |-> cflags[c], key |-> ckey[c], limit |-> climit[c], pr |-> mem[c]]) IN
         /\ cflags' = [cflags EXCEPT ![c] = st.flags]
         /\ ckey' = [ckey EXCEPT ![c] = st.key]
         /\ climit' = [climit EXCEPT ![c] = st.limit]
         /\ mem' = [mem EXCEPT ![c] = st.pr]
         /\ UNCHANGED <<nicks, me, info, nmodes, chans, topic>>
         /\ Op("ChannelModes", <<c, call.m, call.a>>,
               [k |-> "chan", name |-> c, topic |-> topic[c], flags |-> st.flags,
                key |-> st.key, limit |-> st.limit, nicks |-> st.pr])

(* Me and the tracking operations *)

MeOp == Same /\ Op("Me", <<>>, NickSnap(me))

IsOn(c, n) ==
  Same /\ Op("IsOn", <<c, n>>,
             IF c \in chans /\ n \in nicks /\ n \in Members(c)
               THEN [k |-> "ison", ok |-> TRUE, privs |-> mem[c][n]]
               ELSE [k |-> "ison", ok |-> FALSE])

Associate(c, n) ==
  IF c \notin chans \/ n \notin nicks \/ n \in Members(c)
    THEN Same /\ Op("Associate", <<c, n>>, Nil)
    ELSE /\ mem' = [mem EXCEPT ![c] = Extend(@, n, {})]
         /\ UNCHANGED <<nicks, me, info, nmodes, chans, topic, cflags, ckey, climit>>
         /\ Op("Associate", <<c, n>>, PrivSnap({}))

Dissociate(c, n) ==
  /\ Op("Dissociate", <<c, n>>, [k |-> "none"])
  /\ IF c \notin chans \/ n \notin nicks \/ n \notin Members(c) THEN Same
     ELSE IF n = me THEN DropChans({c})
     ELSE LET m1 == [mem EXCEPT ![c] = Restrict(@, Members(c) \ {n})]
              gone == IF ChansOf(n) = {c} THEN {n} ELSE {} IN
          /\ DropNicks(gone, m1)
          /\ UNCHANGED <<me, chans, topic, cflags, ckey, climit>>

Wipe == /\ Op("Wipe", <<>>, [k |-> "none"])
        /\ DropChans(chans)

\* String() renders the whole state for debugging: a read of everything, the text itself is not modelled
StringOp == Same /\ Op("String", <<>>, [k |-> "none"])

-----------------------------------------------------------------------------
Init ==
  /\ nicks = {Me0} /\ me = Me0
  /\ info = [n \in {Me0} |-> NoInfo] /\ nmodes = [n \in {Me0} |-> {}]
  /\ chans = {} /\ topic = <<>> /\ cflags = <<>> /\ ckey = <<>> /\ climit = <<>> /\ mem = <<>>
  /\ lastOp = [op |-> "NewTracker", args |-> <<Me0>>, res |-> [k |-> "none"]]

Next ==
  \/ \E n \in Names : NewNick(n) \/ GetNick(n) \/ DelNick(n)
  \/ \E o, n \in Names : ReNick(o, n)
  \/ \E n \in Names, i \in Infos : NickInfo(n, i)
  \/ \E n \in Names, ms \in NModeStrs : NickModes(n, ms)
  \/ \E c \in ChanNames : NewChannel(c) \/ GetChannel(c) \/ DelChannel(c)
  \/ \E c \in ChanNames, t \in Topics : Topic(c, t)
  \/ \E c \in ChanNames, call \in CModeCalls : ChannelModes(c, call)
  \/ MeOp
  \/ \E c \in ChanNames, n \in Names : IsOn(c, n) \/ Associate(c, n) \/ Dissociate(c, n)
  \/ Wipe

Spec == Init /\ [][Next]_vars

-----------------------------------------------------------------------------
(* Invariants of the relational model (C12's wording) *)

TypeOK ==
  /\ me \in nicks
  /\ DOMAIN info = nicks /\ DOMAIN nmodes = nicks
  /\ DOMAIN topic = chans /\ DOMAIN cflags = chans /\ DOMAIN ckey = chans
  /\ DOMAIN climit = chans /\ DOMAIN mem = chans
  /\ \A c \in chans : Members(c) \subseteq nicks /\ \A n \in Members(c) : mem[c][n] \subseteq PrivChars

\* the client's own nick can never be deleted
MeStays == me \in nicks

\* action properties: what each mutating call must and must not change
RenameCarries ==
  [][\A o, n \in Names :
       (lastOp'.op = "ReNick" /\ lastOp'.args = <<o, n>> /\ lastOp'.res.k = "nick") =>
          /\ \A c \in chans : (o \in Members(c)) =>
                (n \in DOMAIN mem'[c] /\ mem'[c][n] = mem[c][o])
          /\ chans' = chans]_vars

WipeForgetsChannels == [][lastOp'.op = "Wipe" => chans' = {}]_vars

\* deleting a channel (or leaving it) forgets it and every other nick left sharing no channel
DelChannelOrphans ==
  [][\A c \in ChanNames :
       (lastOp'.op = "DelChannel" /\ lastOp'.args = <<c>> /\ lastOp'.res.k = "chan") =>
          /\ c \notin chans'
          /\ \A n \in Members(c) : (n # me /\ ChansOf(n) = {c}) => n \notin nicks'
          /\ \A n \in nicks : (n \notin Members(c) \/ n = me \/ ChansOf(n) # {c}) => n \in nicks']_vars

DelNickRemovesMemberships ==
  [][\A n \in Names :
       (lastOp'.op = "DelNick" /\ lastOp'.args = <<n>> /\ lastOp'.res.k = "nick") =>
          /\ n \notin nicks' /\ \A c \in chans' : n \notin DOMAIN mem'[c]]_vars
=============================================================================
