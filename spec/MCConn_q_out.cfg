SPECIFICATION SafetySpec
CONSTANTS
  QCap = 1
  NIn = 0
  NOut = 0
  MaxGen = 1
  UserNames = {}
  SenderNames = {"s1","s2"}
  NSend = 2
  Burst = TRUE
  AllowEOF = FALSE
  AllowCancel = FALSE
  AllowWErr = FALSE
  AllowStall = FALSE
  Reconnect = "none"
  ConnectWhileUp = FALSE
  HasPing = FALSE
  DrainOnce = FALSE
  StaleClose = FALSE
  NoWatcher = FALSE
  InitBeforeCheck = FALSE
  EarlyUnlock = FALSE
INVARIANTS TypeOK AtMostOneDisc RegisterOnce DiscSeesDisconnected NoCrash OwnClose ClosedForACause GoneAfterDisc WireOrdered AllWritten

CHECK_DEADLOCK FALSE
