-------------------------------- MODULE Flood --------------------------------
(***************************************************************************)
(* Hybrid's flood-protection rule (property C10) over integer ticks of     *)
(* 1/120 s: a line of n characters is charged 240 + n ticks (2 s + n/120 s)*)
(* against a penalty that decays in real time and never drops below zero;  *)
(* the line is held back, for its own charge, exactly when the penalty     *)
(* exceeds 1200 ticks (10 s).                                              *)
(*                                                                         *)
(* Send(n, d): after an idle gap of d ticks, one accounting step           *)
(* (rateLimit) followed, when the line is held, by the sleep.  hist        *)
(* records, for the   *)
(* lines written so far, the time of the write and the charge - the        *)
(* property's consequence is checked on it:  for any run of consecutive    *)
(* lines the total charge exceeds the time between the first and the last  *)
(* write by at most 10 s plus the charges of two lines.                    *)
(***************************************************************************)
EXTENDS Integers, Sequences, TLC

CONSTANTS Lens,      \* line lengths offered
          Gaps,      \* idle gaps (ticks) offered
          MaxSends   \* bound on the history (0: no history kept - closure of the penalty values only)

Threshold == 1200
Charge(n) == 240 + n

VARIABLES
  b,       \* the penalty ("badness") after the last accounting
  idle,    \* ticks since the last accounting
  hist,    \* <<[w |-> time of write, c |-> charge]>>
  now,
  lastOp

vars == <<b, idle, hist, now, lastOp>>

Max0(x) == IF x < 0 THEN 0 ELSE x

Init == b = 0 /\ idle = 0 /\ hist = <<>> /\ now = 0 /\ lastOp = [op |-> "init"]

Send(n, d) ==
  /\ (MaxSends = 0 \/ Len(hist) < MaxSends)
  /\ LET elapsed == idle + d
         nb == Max0(b + Charge(n) - elapsed)
         held == nb > Threshold
         sleep == IF held THEN Charge(n) ELSE 0 IN
     /\ b' = nb
     /\ idle' = sleep                      \* lastsent is taken before the sleep
     /\ now' = IF MaxSends = 0 THEN 0 ELSE now + d + sleep
     /\ hist' = IF MaxSends = 0 THEN hist ELSE Append(hist, [w |-> now + d + sleep, c |-> Charge(n)])
     /\ lastOp' = [op |-> "send", chars |-> n, before |-> b, elapsed |-> elapsed, after |-> nb, held |-> held, sleep |-> sleep]

Next == \E n \in Lens, d \in Gaps : Send(n, d)
Spec == Init /\ [][Next]_vars

-----------------------------------------------------------------------------
NeverNegative == b >= 0
\* the lemma behind the window bound: the penalty never exceeds 10 s plus the charge of the last line
Bounded == b <= Threshold + 750

\* (the window bound itself, which needs a recursive sum over the history, is in MCFlood.tla:
\*  the proof system reads this module - FloodProof.tla - and does not accept RECURSIVE)
\* the decision rule as an action property: held exactly when the penalty exceeds the threshold
HeldIffOver == [][lastOp'.op = "send" => (lastOp'.held <=> lastOp'.after > Threshold)]_vars
=============================================================================
