------------------------------- MODULE Strings -------------------------------
(* String helpers shared by the specifications.  TLC implements Len, \o and    *)
(* SubSeq on strings; bytes are carried as the characters U+0000..U+00FF.      *)
EXTENDS Naturals, Sequences, FiniteSets, TLC, Json, SequencesExt, FiniteSetsExt

SOH == ndJsonDeserialize("soh.ndjson")[1].c   \* the byte 0x01 (not expressible as a TLA+ literal)
NUL == ndJsonDeserialize("soh.ndjson")[2].c   \* the byte 0x00
CR == "\r"
LF == "\n"

Ch(s, i) == SubSeq(s, i, i)
\* concatenation of a sequence of strings (balanced, so that long inputs do not nest deeply)
RECURSIVE CatRange(_, _, _)
CatRange(ss, lo, hi) ==
  IF lo > hi THEN "" ELSE IF lo = hi THEN ss[lo]
  ELSE LET mid == (lo + hi) \div 2 IN CatRange(ss, lo, mid) \o CatRange(ss, mid + 1, hi)
Cat(ss) == CatRange(ss, 1, Len(ss))
JoinWith(ss, sep) == Cat([i \in 1..Len(ss) |-> IF i = 1 THEN ss[i] ELSE sep \o ss[i]])
Map(s, F(_)) == Cat([i \in 1..Len(s) |-> F(Ch(s, i))])
HasPrefix(s, p) == Len(s) >= Len(p) /\ SubSeq(s, 1, Len(p)) = p
HasSuffix(s, p) == Len(s) >= Len(p) /\ SubSeq(s, Len(s) - Len(p) + 1, Len(s)) = p
\* position of the first occurrence of the one-character string c in s, 0 if none
Index(s, c) == LET M == {i \in 1..Len(s) : Ch(s, i) = c} IN IF M = {} THEN 0 ELSE Min(M)

Lower == <<"a","b","c","d","e","f","g","h","i","j","k","l","m","n","o","p","q","r","s","t","u","v","w","x","y","z">>
Upper == <<"A","B","C","D","E","F","G","H","I","J","K","L","M","N","O","P","Q","R","S","T","U","V","W","X","Y","Z">>
UpperOf(c) == IF \E i \in 1..26 : Lower[i] = c THEN Upper[CHOOSE i \in 1..26 : Lower[i] = c] ELSE c
ToUpper(s) == Map(s, UpperOf)


\* split s at every occurrence of the two-character string sep (which cannot overlap itself)
SplitOn2(s, sep) ==
  LET n == Len(s)
      M == {i \in 1..(n - 1) : SubSeq(s, i, i + 1) = sep}
      P == SetToSortSeq(M, <)
      k == Len(P)
  IN [j \in 1..(k + 1) |-> SubSeq(s, (IF j = 1 THEN 1 ELSE P[j - 1] + 2), (IF j = k + 1 THEN n ELSE P[j] - 1))]
Contains1(s, c) == \E i \in 1..Len(s) : Ch(s, i) = c
Rep(c, n) == Cat([i \in 1..n |-> c])
Spaces(n) == Rep(" ", n)
=============================================================================
