SPECIFICATION TraceSpec
CONSTANTS
  Names <- NoneSet
  ChanNames <- NoneSet
  Me0 = "a"
  Infos <- NoneSet
  NModeStrs <- NoneSet
  Topics <- NoneSet
  CModeCalls <- NoneSet
VIEW TView
INVARIANT TraceInv
CONSTRAINT HW
POSTCONDITION Accepted
CHECK_DEADLOCK FALSE
