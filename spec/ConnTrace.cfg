SPECIFICATION TraceSpec
CONSTANTS
  QCap = 32
  NIn = 0
  NOut = 0
  MaxGen = 40
  UserNames = {}
  SenderNames = {}
  NSend = 0
  Burst = TRUE
  AllowEOF = FALSE
  AllowCancel = FALSE
  AllowWErr = FALSE
  AllowStall = FALSE
  Reconnect = "none"
  ConnectWhileUp = FALSE
  HasPing = FALSE
  DrainOnce = FALSE
  StaleClose = FALSE
  NoWatcher = FALSE
  InitBeforeCheck = FALSE
  EarlyUnlock = FALSE
VIEW TView
INVARIANT TraceInv
CONSTRAINT HW
POSTCONDITION Accepted
CHECK_DEADLOCK FALSE
