SPECIFICATION Spec
CONSTANTS
  Names <- S_Names
  MaxRegs = 7
  Bodies <- T_Bodies
  IntBodies <- T_IntBodies
INVARIANT TypeOK
PROPERTY EventInvokesOnlyMatching
ACTION_CONSTRAINT Emit
CHECK_DEADLOCK FALSE
