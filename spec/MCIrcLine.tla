------------------------------ MODULE MCIrcLine ------------------------------
(* Bounded-exhaustive enumeration of the component product of IrcLine.tla.     *)
(* Every initial state is one message; the invariant Emit prints               *)
(* Expected(m) as JSON for the Go driver (function-level and connection-level  *)
(* replay) and WF checks that the universe stays inside the grammar.           *)
EXTENDS IrcLine

CONSTANTS Thorough, Shard, NShards   \* the tag sections are dealt out to NShards TLC processes

T(k, v) == [k |-> k, v |-> v, hv |-> TRUE]
K(k) == [k |-> k, v |-> "", hv |-> FALSE]

TagSecs ==
  {<<>>, <<K("a")>>, <<T("a", "")>>, <<T("a", "b")>>, <<T("k", ";")>>, <<T("k", " ")>>, <<T("k", "\\")>>,
   <<T("k", CR)>>, <<T("k", LF)>>, <<T("k", "\\s")>>, <<T("a", "x=y"), K("example.com/c")>>}
  \cup (IF Thorough THEN {<<T("k", "; \\" \o CR \o LF \o "\\n")>>, <<T("a", "1"), T("b", ";;"), K("c"), T("d", "")>>,
                          <<T("time", "2026-10-01T00:00:00.000Z")>>, <<T("k", "end\\")>>} ELSE {})
Sources == {"", "irc.example.net", "nick!user@host.example", "nick@host"}
  \cup (IF Thorough THEN {"n!u@2001:db8::1", "N[a]`^!~u-1@h.x", "services."} ELSE {})
Verbs == {"PRIVMSG", "privmsg", "Notice", "001", "JOIN", "x"}
  \cup (IF Thorough THEN {"PiNg", "433", "nOtIcE"} ELSE {})
MidSeqs == {<<>>, <<"#chan">>, <<"nick">>, <<"#chan", "a:b">>, <<"&ops">>}
  \cup (IF Thorough THEN {<<"a", "b", "c">>, <<"&c">>, <<"+x", "!y", "z:">>,
                          <<"1", "2", "3", "4", "5", "6", "7", "8", "9", "10", "11", "12", "13", "14">>} ELSE {})
Plain == {<<FALSE, "">>, <<TRUE, "">>, <<TRUE, "word">>, <<TRUE, "two words">>, <<TRUE, "has :colon and  spaces ">>, <<TRUE, ":lead">>}
Ctcps == {<<TRUE, SOH \o "ACTION waves hello" \o SOH>>, <<TRUE, SOH \o "VERSION x y" \o SOH>>}
  \cup (IF Thorough THEN {<<TRUE, SOH \o "PING 123 456" \o SOH>>, <<TRUE, SOH \o "ACTION x" \o SOH>>, <<TRUE, SOH \o "FOO: b :c" \o SOH>>} ELSE {})
Sps == {1, 2}

Msg(tg, s, v, ms, tr, sp) ==
  [hasTags |-> tg # <<>>, tags |-> tg, src |-> s, verb |-> v, mids |-> ms, hasTrail |-> tr[1], trail |-> tr[2], sp |-> sp]

\* CTCP payloads only where the property defines them: exactly target + text
TagSeq == SetToSeq(TagSecs)
MyTags == {TagSeq[i] : i \in {j \in 1..Len(TagSeq) : j % NShards = Shard}}
Messages ==
  {Msg(tg, s, v, ms, tr, sp) : tg \in MyTags, s \in Sources, v \in Verbs, ms \in MidSeqs, tr \in Plain, sp \in Sps}
  \cup {Msg(tg, s, v, ms, tr, sp) : tg \in MyTags, s \in Sources, v \in Verbs, ms \in {q \in MidSeqs : Len(q) = 1}, tr \in Ctcps, sp \in Sps}

VARIABLE m
Init == m \in Messages
Next == UNCHANGED m
WF == WellFormed(m)
Emit == PrintT("MSG " \o ToJson(Expected(m)))
=============================================================================
