SPECIFICATION Spec
CONSTANTS
  Lens = {0, 1, 60, 510}
  Gaps = {0, 1, 119, 240, 1210, 3000}
  MaxSends = 0
VIEW PenaltyView
INVARIANTS NeverNegative Bounded
PROPERTY HeldIffOver
ACTION_CONSTRAINT Emit
CHECK_DEADLOCK FALSE
