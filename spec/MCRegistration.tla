--------------------------- MODULE MCRegistration ---------------------------
EXTENDS Registration
CONSTANT Thorough
VARIABLE c
Servers == {"irc.example.net", "irc.example.net:7000", "10.0.0.1", "10.0.0.1:6669", "[::1]", "[::1]:6670"}
  \cup (IF Thorough THEN {"[2001:db8::2]", "localhost:1", "a.b:65535"} ELSE {})
Configs ==
  {[nick |-> n, ident |-> "id", name |-> nm, pass |-> p, neg |-> ng, sasl |-> sl, ssl |-> s, server |-> sv, pingfreq |-> pf] :
     n \in (IF Thorough THEN {"me", "Nick2"} ELSE {"me"}), nm \in (IF Thorough THEN {"Real Name", "x"} ELSE {"Real Name"}),
     p \in {"", "pw", "p w:x"}, ng \in BOOLEAN, sl \in BOOLEAN, s \in BOOLEAN, sv \in Servers, pf \in {0, 25}}
Init == c \in Configs
Next == UNCHANGED c
Emit == PrintT("CFG " \o ToJson(c))
=============================================================================
