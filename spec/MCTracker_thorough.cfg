SPECIFICATION Spec
CONSTANTS
  Names <- T_Names
  ChanNames <- T_Chans
  Me0 = "a"
  Infos <- None
  NModeStrs <- None
  Topics <- None
  CModeCalls <- T_CModeCalls
VIEW View
INVARIANTS TypeOK MeStays
PROPERTIES RenameCarries WipeForgetsChannels DelChannelOrphans DelNickRemovesMemberships
ACTION_CONSTRAINT Emit
CHECK_DEADLOCK FALSE
