---------------------------- MODULE CommandsTrace ----------------------------
(* Validation of recorded calls of the command methods: each record holds the   *)
(* method, its arguments, SplitLen, the QUIT default and the bytes the server   *)
(* received for that call; Commands!Conforms is evaluated per record.           *)
EXTENDS Commands, TLCExt, FiniteSets
TraceLog == ndJsonDeserialize("trace.ndjson")
VARIABLE l
TInit == l = 1
\* registers: 2 = records violating C08, 3 = violating C11, 4 = not encoded as Commands!Encode1 says (drift)
Note(r, tag, i) == IF Cardinality(TLCGet(r)) < 4 THEN PrintT(<<tag, i, TraceLog[i]>>) ELSE TRUE
Check(r, tag, ok, i) == IF ok THEN TRUE ELSE Note(r, tag, i) /\ TLCSet(r, TLCGet(r) \cup {i})
\* a record is either a call [m, a, sl, quitmsg, wire] or a direct split [text, sl, pieces]
IsSplitRec(r) == "pieces" \in DOMAIN r
TNext == /\ l <= Len(TraceLog)
         /\ IF IsSplitRec(TraceLog[l])
              THEN Check(3, "NONCONFORMING-C11", SplitOK(TraceLog[l].text, TraceLog[l].sl, TraceLog[l].pieces), l)
              ELSE /\ Check(2, "NONCONFORMING-C08", C08OK(TraceLog[l]), l)
                   /\ Check(3, "NONCONFORMING-C11", C11OK(TraceLog[l]), l)
                   /\ Check(4, "NONCONFORMING-ENCODE", EncodeOK(TraceLog[l]), l)
         /\ l' = l + 1
TraceSpec == TInit /\ [][TNext]_l
HW == TLCSet(1, IF l > TLCGet(1) THEN l ELSE TLCGet(1))
ASSUME TLCSet(1, 0) /\ TLCSet(2, {}) /\ TLCSet(3, {}) /\ TLCSet(4, {})
Accepted ==
  /\ TLCGet(1) = Len(TraceLog) + 1
  /\ PrintT(<<"VERDICT", "C08", Cardinality(TLCGet(2)), "C11", Cardinality(TLCGet(3)), "ENCODE", Cardinality(TLCGet(4))>>)
  /\ TLCGet(2) = {} /\ TLCGet(3) = {} /\ TLCGet(4) = {}
=============================================================================
