------------------------------- MODULE IrcLine -------------------------------
(***************************************************************************)
(* The IRC message grammar (RFC 2812 section 2.3.1 plus the IRCv3          *)
(* message-tags section) as COMPONENTS, with                               *)
(*   Render(m)   - the text a server sends for the components m, and       *)
(*   Expected(m) - the Line a conforming parser must deliver for it        *)
(* (property C01).  Strings are real strings (TLC implements Len, \o and    *)
(* SubSeq on them), so the same operators validate messages that the Go    *)
(* driver draws from large alphabets (IrcLineTrace.tla) and enumerate the  *)
(* bounded product of small alphabets (MCIrcLine.tla).                     *)
(***************************************************************************)
EXTENDS Strings

\* the five escapes of the message-tags specification
EscOf(c) == CASE c = ";" -> "\\:" [] c = " " -> "\\s" [] c = "\\" -> "\\\\"
              [] c = CR -> "\\r" [] c = LF -> "\\n" [] OTHER -> c
EscapeTag(v) == Map(v, EscOf)

-----------------------------------------------------------------------------
(* A message is a record
     [hasTags, tags : Seq([k, v, hv]), src, verb, mids : Seq(STRING), hasTrail, trail, sp]
   hv = FALSE is a key-only tag; src = "" means no prefix; sp = number of spaces
   in front of every parameter.                                                    *)

RenderTag(t) == IF t.hv THEN t.k \o "=" \o EscapeTag(t.v) ELSE t.k
Render(m) ==
  (IF m.hasTags THEN "@" \o JoinWith([i \in 1..Len(m.tags) |-> RenderTag(m.tags[i])], ";") \o " " ELSE "")
  \o (IF m.src # "" THEN ":" \o m.src \o " " ELSE "")
  \o m.verb
  \o Cat([i \in 1..Len(m.mids) |-> Spaces(m.sp) \o m.mids[i]])
  \o (IF m.hasTrail THEN Spaces(m.sp) \o ":" \o m.trail ELSE "")

\* well-formedness of the components (the generator and the trace validator both use it)
NoneOf(s, cs) == \A i \in 1..Len(s) : Ch(s, i) \notin cs
WellFormed(m) ==
  /\ m.sp >= 1
  /\ m.hasTags => /\ Len(m.tags) >= 1
                  /\ \A i \in 1..Len(m.tags) : Len(m.tags[i].k) >= 1 /\ NoneOf(m.tags[i].k, {";", " ", "=", "\\", CR, LF})
                  /\ \A i, j \in 1..Len(m.tags) : i # j => m.tags[i].k # m.tags[j].k
  /\ NoneOf(m.src, {" ", CR, LF}) /\ (m.src # "" => Ch(m.src, 1) # ":")
  /\ Len(m.verb) >= 1 /\ NoneOf(m.verb, {" ", ":", "@", CR, LF})
  /\ Len(m.mids) <= 14
  /\ \A i \in 1..Len(m.mids) : Len(m.mids[i]) >= 1 /\ Ch(m.mids[i], 1) # ":" /\ NoneOf(m.mids[i], {" ", CR, LF})
  /\ NoneOf(m.trail, {CR, LF})

Src(m) ==
  LET b == Index(m.src, "!")  a == Index(m.src, "@") IN
  IF b > 0 /\ a > b
    THEN [nick |-> SubSeq(m.src, 1, b - 1), ident |-> SubSeq(m.src, b + 1, a - 1), host |-> SubSeq(m.src, a + 1, Len(m.src))]
    ELSE [nick |-> "", ident |-> "", host |-> m.src]

Params(m) == IF m.hasTrail THEN Append(m.mids, m.trail) ELSE m.mids

\* the text is \x01VERB text\x01 with exactly one \x01 at each end
IsCtcp(t) == /\ Len(t) > 2 /\ Ch(t, 1) = SOH /\ Ch(t, Len(t)) = SOH
CtcpBody(t) == SubSeq(t, 2, Len(t) - 1)
CtcpVerb(t) == LET b == CtcpBody(t)  s == Index(b, " ") IN IF s = 0 THEN b ELSE SubSeq(b, 1, s - 1)
CtcpHasText(t) == Index(CtcpBody(t), " ") > 0
CtcpText(t) == LET b == CtcpBody(t)  s == Index(b, " ") IN SubSeq(b, s + 1, Len(b))

ChanPrefix == {"#", "&", "+", "!"}

Expected(m) ==
  LET cmd0 == ToUpper(m.verb)
      ps == Params(m)
      s == Src(m)
      ctcp == cmd0 \in {"PRIVMSG", "NOTICE"} /\ Len(ps) = 2 /\ IsCtcp(ps[2])
      cverb == IF ctcp THEN ToUpper(CtcpVerb(ps[2])) ELSE ""
      ctext == IF ctcp /\ CtcpHasText(ps[2]) THEN CtcpText(ps[2]) ELSE IF ctcp THEN ps[2] ELSE ""
      isAction == ctcp /\ cmd0 = "PRIVMSG" /\ cverb = "ACTION"
      cmd == IF isAction THEN "ACTION" ELSE IF ctcp THEN (IF cmd0 = "PRIVMSG" THEN "CTCP" ELSE "CTCPREPLY") ELSE cmd0
      args == IF isAction THEN <<ps[1], ctext>> ELSE IF ctcp THEN <<cverb, ps[1], ctext>> ELSE ps
      tpos == IF cmd \in {"CTCP", "CTCPREPLY"} THEN 2 ELSE 1
      msgLike == cmd \in {"PRIVMSG", "NOTICE", "ACTION", "CTCP", "CTCPREPLY"}
      accDef == ~msgLike \/ (Len(args) >= tpos /\ Len(args[tpos]) >= 1)
      public == msgLike /\ accDef /\ Ch(args[tpos], 1) \in ChanPrefix
  IN [raw |-> Render(m), hasTags |-> m.hasTags,
      tags |-> IF m.hasTags THEN [i \in 1..Len(m.tags) |-> <<m.tags[i].k, IF m.tags[i].hv THEN m.tags[i].v ELSE "">>] ELSE <<>>,
      src |-> m.src, nick |-> s.nick, ident |-> s.ident, host |-> s.host,
      cmd |-> cmd, args |-> args,
      text |-> IF args = <<>> THEN "" ELSE args[Len(args)],
      accDefined |-> accDef,
      public |-> public,
      target |-> IF ~accDef THEN "" ELSE IF msgLike THEN (IF public THEN args[tpos] ELSE s.nick)
                 ELSE IF args = <<>> THEN "" ELSE args[1]]
=============================================================================
