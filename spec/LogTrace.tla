------------------------------ MODULE LogTrace ------------------------------
(***************************************************************************)
(* C20 on recorded sessions: each record holds the connection password,    *)
(* the kind of session and every record the library handed to the          *)
(* installed logger (all four levels, formatted).  No record may contain   *)
(* the password; a record that shows an outgoing PASS line shows it        *)
(* masked.                                                                 *)
(***************************************************************************)
EXTENDS Strings, TLCExt
TraceLog == ndJsonDeserialize("trace.ndjson")
VARIABLE l

HasSub(s, p) == \E i \in 1..(Len(s) - Len(p) + 1) : SubSeq(s, i, i + Len(p) - 1) = p
NoLeak(r) ==
  /\ \A i \in 1..Len(r.records) : ~HasSub(r.records[i], r.password)
  /\ \A i \in 1..Len(r.records) : HasPrefix(r.records[i], "-> PASS") => r.records[i] = "-> PASS **************"

TInit == l = 1
Note(i) == IF Cardinality(TLCGet(2)) < 4
             THEN PrintT(<<"NONCONFORMING", i, TraceLog[i].session, TraceLog[i].password,
                           SelectSeq(TraceLog[i].records, LAMBDA x : HasSub(x, TraceLog[i].password) \/ HasPrefix(x, "-> PASS"))>>)
             ELSE TRUE
TNext == /\ l <= Len(TraceLog)
         /\ IF NoLeak(TraceLog[l]) THEN TRUE ELSE Note(l) /\ TLCSet(2, TLCGet(2) \cup {l})
         /\ l' = l + 1
TraceSpec == TInit /\ [][TNext]_l
HW == TLCSet(1, IF l > TLCGet(1) THEN l ELSE TLCGet(1))
ASSUME TLCSet(1, 0) /\ TLCSet(2, {})
Accepted ==
  /\ TLCGet(1) = Len(TraceLog) + 1
  /\ IF TLCGet(2) = {} THEN TRUE
     ELSE Print(<<"REJECTED at event", Cardinality(TLCGet(2)), "sessions leak the password, indices", TLCGet(2)>>, FALSE)
=============================================================================
