SPECIFICATION Spec
CONSTANTS
  NLines = 4
  Welcome = 2
  FgH = {"f1","f2"}
  BgH = {"b1"}
  Outcomes = {"ret","panic","block"}
  BgBeforeInt = FALSE
  LoopLeavesEarly = FALSE
  NoRecover = FALSE
INVARIANTS OneLineAtATime InOrder ConnectedPlacement DiscAfterFg AppliedBeforeHandlers FgSeesNothingLater PanicsRecovered ExactlyOnce
PROPERTY AllDelivered
CHECK_DEADLOCK FALSE
