SPECIFICATION Spec
CONSTANTS
  QCap = 1
  NIn = 1
  NOut = 0
  MaxGen = 1
  UserNames = {}
  SenderNames = {}
  NSend = 0
  Burst = TRUE
  AllowEOF = FALSE
  AllowCancel = TRUE
  AllowWErr = FALSE
  AllowStall = TRUE
  Reconnect = "none"
  ConnectWhileUp = FALSE
  HasPing = TRUE
  DrainOnce = FALSE
  StaleClose = FALSE
  NoWatcher = FALSE
  InitBeforeCheck = FALSE
  EarlyUnlock = FALSE
INVARIANTS TypeOK AtMostOneDisc RegisterOnce DiscSeesDisconnected NoCrash OwnClose ClosedForACause GoneAfterDisc WireOrdered AllWritten
PROPERTIES CloseReturns EndedGenDisconnects NoLeak
CHECK_DEADLOCK FALSE
