SPECIFICATION Spec
CONSTANTS
  Names <- B_Names
  ChanNames <- B_Chans
  Me0 = "a"
  Infos <- B_Infos
  NModeStrs <- B_NModeStrs
  Topics <- B_Topics
  CModeCalls <- B_CModeCalls
VIEW View
INVARIANTS TypeOK MeStays
ACTION_CONSTRAINT Emit
CHECK_DEADLOCK FALSE
