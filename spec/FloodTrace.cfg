SPECIFICATION TraceSpec
CONSTRAINT HW
POSTCONDITION Accepted
CHECK_DEADLOCK FALSE
