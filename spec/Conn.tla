-------------------------------- MODULE Conn --------------------------------
(***************************************************************************)
(* Lifecycle of one client.Conn object over several connection GENERATIONS *)
(* (properties C06, C07, C09; the teardown part of C03/C16).               *)
(*                                                                         *)
(* Per generation g the client runs the goroutines recv, send, runLoop, a  *)
(* cancellation watcher and (optionally) ping.  They communicate through   *)
(* the two bounded queues in/out, the mutex mu, the wait group wg and the  *)
(* context ctx[g].  close(sock) can be entered by user goroutines (the     *)
(* public Close) and by the goroutines of a generation (after EOF, a read  *)
(* or write error, or cancellation).                                       *)
(*                                                                         *)
(* The module is shaped like the implementation (one action per critical   *)
(* section / blocking point; purely local steps are folded into the next   *)
(* visible one, DESIGN.md 3.3).  It models the REPAIRED design; each       *)
(* genuine defect of the pinned tree is kept behind a constant so that TLC *)
(* can show the corresponding property fail (sensitivity, DESIGN.md 6.4):  *)
(*   DrainOnce       Close drains in/out once, then waits for wg (D5)      *)
(*   StaleClose      goroutines call the public Close: no ownership (D6)   *)
(*   NoWatcher       nobody closes on cancellation if send just leaves (D7)*)
(*   InitBeforeCheck Connect re-initialises before the connected test (D4) *)
(*   EarlyUnlock     close releases the lifecycle lock before it waits for *)
(*                   the connection's goroutines (a seeded change, C07e)   *)
(***************************************************************************)
EXTENDS Naturals, Sequences, FiniteSets, TLC

CONSTANTS
  QCap,          \* capacity of the in and out queues (32 in the code)
  NIn,           \* lines the server sends per generation
  NOut,          \* lines every foreground handler invocation sends (through Raw)
  MaxGen,        \* number of connection generations
  UserNames,     \* names of user goroutines calling Close
  SenderNames,   \* names of user goroutines sending lines (C09)
  NSend,         \* lines per user sender
  Burst,         \* server delivers its NIn lines in one burst (else one at a time)
  AllowEOF, AllowCancel, AllowWErr, AllowStall,   \* environment faults that are enabled
  Reconnect,     \* "none" | "handler" (from the DISCONNECTED handler) | "other" (another goroutine)
  ConnectWhileUp,\* a user goroutine may call Connect while connected (must be refused)
  HasPing,       \* the ping goroutine exists
  DrainOnce, StaleClose, NoWatcher, InitBeforeCheck, EarlyUnlock

NoOne == <<0, "none">>
Gens == 1..MaxGen
Roles == {"recv", "send", "loop", "watch", "ping"}
WgRoles == {"recv", "send", "loop"} \cup (IF HasPing THEN {"ping"} ELSE {})
UserClosers == {<<0, n>> : n \in UserNames}
IntClosers == Gens \X {"recv", "send", "loop", "watch"}
Callers == UserClosers \cup IntClosers
Senders == SenderNames

VARIABLES
  \* --- the Conn object.  mu is the lock that serialises Connect and close as a whole (lifeMu in
  \* the code since the fix of the Connected()-in-handler deadlock; the short critical sections
  \* under conn.mu that flip the connected flag are folded into CloseEnter / ConnectEffect)
  connected, mu, gen, sockOpen, ctx, wg, inQ, outQ,
  \* --- network, per generation
  netq,      \* lines sent by the server, not yet read by the client
  rbuf,      \* lines sitting in recv's bufio.Reader
  eof,       \* server closed its side
  srvLeft,   \* lines the server still wants to send
  srvReads,  \* the server is reading (FALSE: the client's socket write blocks)
  werr,      \* the next socket write fails
  wire,      \* lines written to the socket so far (history)
  \* --- goroutines of a generation
  gpc, hold, hsend, wline,
  \* --- callers of close(sock)
  cpc, cgen, closedBy,
  \* --- connectors
  regLeft,   \* lines the REGISTER handler still has to send (NICK, USER)
  upTries,   \* Connect calls made while connected
  \* --- user senders
  spos,      \* [Senders -> number of lines already handed to Raw]
  sblocked,  \* sender currently inside Raw (line not yet in the queue)
  \* --- observation
  fired,     \* [Gens -> [reg, disc : Nat]]
  discConn,  \* Connected() as sampled when DISCONNECTED was dispatched for g
  cause,     \* a legitimate reason to end generation g exists
  crashed

lifeVars == <<connected, mu, gen, sockOpen, ctx, wg>>
qVars == <<inQ, outQ>>
netVars == <<netq, rbuf, eof, srvLeft, srvReads, werr, wire>>
goVars == <<gpc, hold, hsend, wline>>
closeVars == <<cpc, cgen, closedBy>>
connVars == <<regLeft, upTries>>
sendVars == <<spos, sblocked>>
obsVars == <<fired, discConn, cause, crashed>>
vars == <<lifeVars, qVars, netVars, goVars, closeVars, connVars, sendVars, obsVars>>

-----------------------------------------------------------------------------
Init ==
  /\ connected = FALSE /\ mu = NoOne /\ gen = 0
  /\ sockOpen = [g \in Gens |-> FALSE] /\ ctx = [g \in Gens |-> FALSE] /\ wg = 0
  /\ inQ = <<>> /\ outQ = <<>>
  /\ netq = [g \in Gens |-> <<>>] /\ rbuf = [g \in Gens |-> <<>>] /\ eof = [g \in Gens |-> FALSE]
  /\ srvLeft = [g \in Gens |-> NIn] /\ srvReads = [g \in Gens |-> TRUE] /\ werr = [g \in Gens |-> FALSE]
  /\ wire = [g \in Gens |-> <<>>]
  /\ gpc = [g \in Gens |-> [r \in Roles |-> "off"]]
  /\ hold = [g \in Gens |-> 0] /\ hsend = [g \in Gens |-> 0] /\ wline = [g \in Gens |-> <<>>]
  /\ cpc = [c \in Callers |-> "idle"] /\ cgen = [c \in Callers |-> 0] /\ closedBy = [g \in Gens |-> NoOne]
  /\ regLeft = 0 /\ upTries = 0
  /\ spos = [s \in Senders |-> 0] /\ sblocked = [s \in Senders |-> FALSE]
  /\ fired = [g \in Gens |-> [reg |-> 0, disc |-> 0]]
  /\ discConn = [g \in Gens |-> FALSE]
  /\ cause = [g \in Gens |-> FALSE]
  /\ crashed = FALSE

-----------------------------------------------------------------------------
(* Connect: Lock; refuse if connected; initialise; dial; start goroutines;
   connected = TRUE; Unlock - one critical section under mu.  REGISTER is
   dispatched afterwards, outside mu: its handler sends NICK and USER.      *)

CanConnect == mu = NoOne /\ ~connected /\ gen < MaxGen

ConnectEffect(base, fb) ==
  /\ gen' = gen + 1 /\ connected' = TRUE
  /\ inQ' = <<>> /\ outQ' = <<>>
  /\ sockOpen' = [sockOpen EXCEPT ![gen + 1] = TRUE]
  /\ wg' = wg + Cardinality(WgRoles)
  /\ gpc' = [base EXCEPT ![gen + 1] = [recv |-> "read", send |-> "sel", loop |-> "sel",
                                       watch |-> IF NoWatcher THEN "off" ELSE "wait",
                                       ping |-> IF HasPing THEN "sel" ELSE "off"]]
  /\ regLeft' = 2
  /\ fired' = [fb EXCEPT ![gen + 1].reg = @ + 1]

InitialConnect ==
  /\ gen = 0 /\ CanConnect /\ ConnectEffect(gpc, fired)
  /\ UNCHANGED <<mu, ctx, netVars, hold, hsend, wline, closeVars, upTries, sendVars, discConn, cause, crashed>>

\* the REGISTER handler (run by whoever called Connect) sends through Raw
RegisterSend ==
  /\ regLeft > 0 /\ Len(outQ) < QCap
  /\ outQ' = Append(outQ, <<"reg", regLeft>>) /\ regLeft' = regLeft - 1
  /\ UNCHANGED <<lifeVars, inQ, netVars, goVars, closeVars, upTries, sendVars, obsVars>>

\* Connect while connected: refused, must change nothing (C06).  With the
\* defect InitBeforeCheck the per-connection state was wiped first, which
\* leaves recv with a nil reader: its next read crashes the process.
ConnectRefused ==
  /\ ConnectWhileUp /\ upTries < 1 /\ mu = NoOne /\ connected
  /\ upTries' = upTries + 1
  /\ IF InitBeforeCheck THEN inQ' = <<>> /\ outQ' = <<>> /\ crashed' = TRUE
     ELSE UNCHANGED <<inQ, outQ, crashed>>
  /\ UNCHANGED <<lifeVars, netVars, goVars, closeVars, regLeft, sendVars, fired, discConn, cause>>

\* a Connect that fails after the connected test (dial error, TLS handshake failure): the per-connection
\* state has been initialised and that is all - no event, not connected, a later Connect works (C06)
ConnectFails ==
  /\ ConnectWhileUp /\ upTries < 1 /\ mu = NoOne /\ ~connected
  /\ upTries' = upTries + 1
  /\ inQ' = <<>> /\ outQ' = <<>>
  /\ UNCHANGED <<lifeVars, netVars, goVars, closeVars, regLeft, sendVars, fired, discConn, cause, crashed>>

\* another goroutine reconnects: woken by DISCONNECTED ("other"), or as soon as it finds the client
\* disconnected ("eager" - its Connect then waits for the teardown in progress to release the lock)
OtherReconnect ==
  /\ \/ Reconnect = "other" /\ gen >= 1 /\ fired[gen].disc >= 1
     \/ Reconnect = "eager" /\ gen >= 1
  /\ CanConnect
  /\ ConnectEffect(gpc, fired)
  /\ UNCHANGED <<mu, ctx, netVars, hold, hsend, wline, closeVars, upTries, sendVars, discConn, cause, crashed>>

-----------------------------------------------------------------------------
(* Environment: the server and the owner of the context *)

SrvSend(g) ==
  /\ srvLeft[g] > 0 /\ sockOpen[g] /\ ~eof[g]
  /\ IF Burst
       THEN /\ netq' = [netq EXCEPT ![g] = @ \o [i \in 1..srvLeft[g] |-> i]]
            /\ srvLeft' = [srvLeft EXCEPT ![g] = 0]
       ELSE /\ netq' = [netq EXCEPT ![g] = Append(@, srvLeft[g])]
            /\ srvLeft' = [srvLeft EXCEPT ![g] = @ - 1]
  /\ UNCHANGED <<lifeVars, qVars, rbuf, eof, srvReads, werr, wire, goVars, closeVars, connVars, sendVars, obsVars>>

SrvEOF(g) ==
  /\ AllowEOF /\ sockOpen[g] /\ ~eof[g] /\ srvLeft[g] = 0
  /\ srvReads[g]        \* a peer that went away does not leave writes blocked (they fail)
  /\ eof' = [eof EXCEPT ![g] = TRUE] /\ cause' = [cause EXCEPT ![g] = TRUE]
  /\ UNCHANGED <<lifeVars, qVars, netq, rbuf, srvLeft, srvReads, werr, wire, goVars, closeVars, connVars, sendVars, fired, discConn, crashed>>

ExtCancel(g) ==
  /\ AllowCancel /\ sockOpen[g] /\ ~ctx[g]
  /\ ctx' = [ctx EXCEPT ![g] = TRUE] /\ cause' = [cause EXCEPT ![g] = TRUE]
  /\ UNCHANGED <<connected, mu, gen, sockOpen, wg, qVars, netVars, goVars, closeVars, connVars, sendVars, fired, discConn, crashed>>

SrvWriteFault(g) ==
  /\ AllowWErr /\ sockOpen[g] /\ ~werr[g]
  /\ werr' = [werr EXCEPT ![g] = TRUE] /\ cause' = [cause EXCEPT ![g] = TRUE]
  /\ UNCHANGED <<lifeVars, qVars, netq, rbuf, eof, srvLeft, srvReads, wire, goVars, closeVars, connVars, sendVars, fired, discConn, crashed>>

\* the server stops reading for good: socket writes block until the socket is closed
SrvStall(g) ==
  /\ AllowStall /\ sockOpen[g] /\ srvReads[g] /\ ~eof[g]
  /\ srvReads' = [srvReads EXCEPT ![g] = FALSE]
  /\ UNCHANGED <<lifeVars, qVars, netq, rbuf, eof, srvLeft, werr, wire, goVars, closeVars, connVars, sendVars, obsVars>>

-----------------------------------------------------------------------------
(* Goroutines of generation g *)

\* leaving the loop: wg.Done, then (for recv/send-on-error/loop) close(sock)
Leave(g, r, callsClose) ==
  /\ wg' = wg - 1
  /\ IF callsClose
       THEN /\ gpc' = [gpc EXCEPT ![g][r] = "closing"]
            /\ cpc' = [cpc EXCEPT ![<<g, r>>] = "enter"]
       ELSE /\ gpc' = [gpc EXCEPT ![g][r] = "done"] /\ cpc' = cpc

RecvRead(g) ==
  /\ gpc[g].recv = "read"
  /\ \/ /\ rbuf[g] # <<>>
        /\ hold' = [hold EXCEPT ![g] = Head(rbuf[g])] /\ rbuf' = [rbuf EXCEPT ![g] = Tail(@)]
        /\ gpc' = [gpc EXCEPT ![g].recv = "enq"]
        /\ UNCHANGED <<netq, wg, cpc>>
     \/ /\ rbuf[g] = <<>> /\ netq[g] # <<>> /\ sockOpen[g]
        /\ hold' = [hold EXCEPT ![g] = Head(netq[g])] /\ rbuf' = [rbuf EXCEPT ![g] = Tail(netq[g])]
        /\ netq' = [netq EXCEPT ![g] = <<>>]
        /\ gpc' = [gpc EXCEPT ![g].recv = "enq"]
        /\ UNCHANGED <<wg, cpc>>
     \/ /\ rbuf[g] = <<>> /\ (~sockOpen[g] \/ (eof[g] /\ netq[g] = <<>>))
        /\ Leave(g, "recv", TRUE)
        /\ UNCHANGED <<hold, rbuf, netq>>
  /\ UNCHANGED <<connected, mu, gen, sockOpen, ctx, qVars, eof, srvLeft, srvReads, werr, wire, hsend, wline, cgen, closedBy, connVars, sendVars, obsVars>>

RecvEnq(g) ==
  /\ gpc[g].recv = "enq" /\ Len(inQ) < QCap
  /\ inQ' = Append(inQ, hold[g]) /\ gpc' = [gpc EXCEPT ![g].recv = "read"]
  /\ UNCHANGED <<lifeVars, outQ, netVars, hold, hsend, wline, closeVars, connVars, sendVars, obsVars>>

\* send: take a line from out ...
SendDeq(g) ==
  /\ gpc[g].send = "sel" /\ outQ # <<>>
  /\ wline' = [wline EXCEPT ![g] = Head(outQ)] /\ outQ' = Tail(outQ)
  /\ gpc' = [gpc EXCEPT ![g].send = "write"]
  /\ UNCHANGED <<lifeVars, inQ, netVars, hold, hsend, closeVars, connVars, sendVars, obsVars>>
\* ... and write it: succeeds when the server reads, blocks while it does not,
\* fails when the socket was closed or the write faults
SendWrite(g) ==
  /\ gpc[g].send = "write"
  /\ IF ~sockOpen[g] \/ werr[g]
       THEN Leave(g, "send", TRUE) /\ UNCHANGED wire
       ELSE /\ srvReads[g]
            /\ wire' = [wire EXCEPT ![g] = Append(@, wline[g])]
            /\ gpc' = [gpc EXCEPT ![g].send = "sel"]
            /\ UNCHANGED <<wg, cpc>>
  /\ UNCHANGED <<connected, mu, gen, sockOpen, ctx, qVars, netq, rbuf, eof, srvLeft, srvReads, werr, hold, hsend, wline, cgen, closedBy, connVars, sendVars, obsVars>>
\* cancellation observed by send: it just leaves (the watcher closes)
SendCtx(g) ==
  /\ gpc[g].send = "sel" /\ ctx[g]
  /\ Leave(g, "send", FALSE)
  /\ UNCHANGED <<connected, mu, gen, sockOpen, ctx, qVars, netVars, hold, hsend, wline, cgen, closedBy, connVars, sendVars, obsVars>>

\* runLoop: take a line from in and dispatch it; the foreground handler
\* sends NOut lines through Raw (blocking while out is full)
LoopDeq(g) ==
  /\ gpc[g].loop = "sel" /\ inQ # <<>>
  /\ inQ' = Tail(inQ)
  /\ IF NOut = 0 THEN UNCHANGED <<gpc, hsend>>
     ELSE gpc' = [gpc EXCEPT ![g].loop = "disp"] /\ hsend' = [hsend EXCEPT ![g] = NOut]
  /\ UNCHANGED <<lifeVars, outQ, netVars, hold, wline, closeVars, connVars, sendVars, obsVars>>
LoopHandlerSend(g) ==
  /\ gpc[g].loop = "disp" /\ hsend[g] > 0 /\ Len(outQ) < QCap
  /\ outQ' = Append(outQ, <<"h", g, hsend[g]>>) /\ hsend' = [hsend EXCEPT ![g] = @ - 1]
  /\ gpc' = [gpc EXCEPT ![g].loop = IF hsend[g] = 1 THEN "sel" ELSE "disp"]
  /\ UNCHANGED <<lifeVars, inQ, netVars, hold, wline, closeVars, connVars, sendVars, obsVars>>
LoopCtx(g) ==
  /\ gpc[g].loop = "sel" /\ ctx[g]
  /\ Leave(g, "loop", TRUE)
  /\ UNCHANGED <<connected, mu, gen, sockOpen, ctx, qVars, netVars, hold, hsend, wline, cgen, closedBy, connVars, sendVars, obsVars>>

\* the watcher: <-ctx.Done(); close(sock).  Not in the wait group.
WatchFire(g) ==
  /\ gpc[g].watch = "wait" /\ ctx[g]
  /\ gpc' = [gpc EXCEPT ![g].watch = "closing"]
  /\ cpc' = [cpc EXCEPT ![<<g, "watch">>] = "enter"]
  /\ UNCHANGED <<lifeVars, qVars, netVars, hold, hsend, wline, cgen, closedBy, connVars, sendVars, obsVars>>

\* ping: a tick sends one PING through Raw (may block on a full queue)
PingTick(g) ==
  /\ gpc[g].ping = "sel" /\ ~ctx[g]
  /\ gpc' = [gpc EXCEPT ![g].ping = "raw"]
  /\ UNCHANGED <<lifeVars, qVars, netVars, hold, hsend, wline, closeVars, connVars, sendVars, obsVars>>
PingRaw(g) ==
  /\ gpc[g].ping = "raw" /\ Len(outQ) < QCap
  /\ outQ' = Append(outQ, <<"ping", g>>)
  /\ gpc' = [gpc EXCEPT ![g].ping = "idle"]
  /\ UNCHANGED <<lifeVars, inQ, netVars, hold, hsend, wline, closeVars, connVars, sendVars, obsVars>>
PingCtx(g) ==
  /\ gpc[g].ping \in {"sel", "idle"} /\ ctx[g]
  /\ wg' = wg - 1 /\ gpc' = [gpc EXCEPT ![g].ping = "done"]
  /\ UNCHANGED <<connected, mu, gen, sockOpen, ctx, qVars, netVars, hold, hsend, wline, closeVars, connVars, sendVars, obsVars>>

-----------------------------------------------------------------------------
(* User goroutines sending lines (C09): Raw = blocking enqueue *)
UserRawBegin(s) ==
  /\ spos[s] < NSend /\ ~sblocked[s] /\ gen >= 1
  /\ sblocked' = [sblocked EXCEPT ![s] = TRUE]
  /\ UNCHANGED <<lifeVars, qVars, netVars, goVars, closeVars, connVars, spos, obsVars>>
UserRawEnq(s) ==
  /\ sblocked[s] /\ Len(outQ) < QCap
  /\ outQ' = Append(outQ, <<"u", s, spos[s] + 1>>)
  /\ spos' = [spos EXCEPT ![s] = @ + 1] /\ sblocked' = [sblocked EXCEPT ![s] = FALSE]
  /\ UNCHANGED <<lifeVars, inQ, netVars, goVars, closeVars, connVars, obsVars>>

-----------------------------------------------------------------------------
(* close(sock) *)

UserClose(c) ==
  /\ c \in UserClosers /\ cpc[c] = "idle" /\ gen > 0
  /\ cpc' = [cpc EXCEPT ![c] = "enter"]
  /\ UNCHANGED <<lifeVars, qVars, netVars, goVars, cgen, closedBy, connVars, sendVars, obsVars>>

\* a goroutine may only tear down the connection it belongs to
Mine(c) == c \in UserClosers \/ StaleClose \/ c[1] = gen
Finished(c) == IF c \in IntClosers THEN [gpc EXCEPT ![c[1]][c[2]] = "done"] ELSE gpc

\* Lock; test; mark (connected = false, sock.Close(), cancel): one critical section
CloseEnter(c) ==
  /\ cpc[c] = "enter" /\ mu = NoOne
  /\ IF connected /\ Mine(c)
       THEN /\ mu' = (IF EarlyUnlock THEN NoOne ELSE c) /\ connected' = FALSE
            /\ sockOpen' = [sockOpen EXCEPT ![gen] = FALSE]
            /\ ctx' = [ctx EXCEPT ![gen] = TRUE]
            /\ cgen' = [cgen EXCEPT ![c] = gen]
            /\ closedBy' = [closedBy EXCEPT ![gen] = c]
            /\ cause' = IF c \in UserClosers THEN [cause EXCEPT ![gen] = TRUE] ELSE cause
            /\ cpc' = [cpc EXCEPT ![c] = "drain"]
            /\ gpc' = gpc
       ELSE /\ cpc' = [cpc EXCEPT ![c] = "done"] /\ gpc' = Finished(c)
            /\ UNCHANGED <<mu, connected, sockOpen, ctx, cgen, closedBy, cause>>
  /\ UNCHANGED <<gen, wg, qVars, netVars, hold, hsend, wline, connVars, sendVars, fired, discConn, crashed>>

\* drain in and out (repaired: as long as the goroutines have not all left)
CloseDrain(c) ==
  /\ cpc[c] = "drain"
  /\ (DrainOnce \/ inQ # <<>> \/ outQ # <<>>)
  /\ inQ' = <<>> /\ outQ' = <<>>
  /\ cpc' = [cpc EXCEPT ![c] = IF DrainOnce THEN "wait" ELSE "drain"]
  /\ UNCHANGED <<lifeVars, netVars, goVars, cgen, closedBy, connVars, sendVars, obsVars>>

\* wg.Wait() returned; Unlock
CloseWaited(c) ==
  /\ cpc[c] = (IF DrainOnce THEN "wait" ELSE "drain") /\ wg = 0
  /\ mu' = (IF EarlyUnlock THEN mu ELSE NoOne) /\ cpc' = [cpc EXCEPT ![c] = "disp"]
  /\ UNCHANGED <<connected, gen, sockOpen, ctx, wg, qVars, netVars, goVars, cgen, closedBy, connVars, sendVars, obsVars>>

\* dispatch DISCONNECTED (its handler may reconnect) and return
CloseDisp(c) ==
  /\ cpc[c] = "disp"
  /\ discConn' = [discConn EXCEPT ![cgen[c]] = connected]
  /\ cpc' = [cpc EXCEPT ![c] = "done"]
  /\ IF Reconnect = "handler" /\ gen < MaxGen /\ ~connected
       THEN /\ mu = NoOne      \* the handler's Connect waits for mu
            /\ ConnectEffect(Finished(c), [fired EXCEPT ![cgen[c]].disc = @ + 1])
            /\ UNCHANGED <<mu, ctx, netVars, hold, hsend, wline, cgen, closedBy, upTries, sendVars, cause, crashed>>
       ELSE /\ gpc' = Finished(c)
            /\ fired' = [fired EXCEPT ![cgen[c]].disc = @ + 1]
            /\ UNCHANGED <<lifeVars, qVars, netVars, hold, hsend, wline, cgen, closedBy, connVars, sendVars, cause, crashed>>

-----------------------------------------------------------------------------
GoStep(g) == RecvRead(g) \/ RecvEnq(g) \/ SendDeq(g) \/ SendWrite(g) \/ SendCtx(g)
          \/ LoopDeq(g) \/ LoopHandlerSend(g) \/ LoopCtx(g) \/ WatchFire(g)
          \/ PingTick(g) \/ PingRaw(g) \/ PingCtx(g)
CloseStep(c) == CloseEnter(c) \/ CloseDrain(c) \/ CloseWaited(c) \/ CloseDisp(c)
Env == \E g \in Gens : SrvSend(g) \/ SrvEOF(g) \/ ExtCancel(g) \/ SrvWriteFault(g) \/ SrvStall(g)
Next == \/ InitialConnect \/ RegisterSend \/ ConnectRefused \/ ConnectFails \/ OtherReconnect \/ Env
        \/ \E g \in Gens : GoStep(g)
        \/ \E c \in Callers : UserClose(c) \/ CloseStep(c)
        \/ \E s \in Senders : UserRawBegin(s) \/ UserRawEnq(s)

\* weak fairness of everything the program does; none for the environment,
\* for user decisions (UserClose, UserRawBegin, ConnectRefused) or ping ticks
Fair ==
  /\ \A g \in Gens : /\ WF_vars(RecvRead(g)) /\ WF_vars(RecvEnq(g))
                     /\ WF_vars(SendDeq(g) \/ SendCtx(g)) /\ WF_vars(SendWrite(g))
                     /\ WF_vars(LoopDeq(g) \/ LoopCtx(g)) /\ WF_vars(LoopHandlerSend(g))
                     /\ WF_vars(WatchFire(g)) /\ WF_vars(PingRaw(g)) /\ WF_vars(PingCtx(g))
  /\ \A c \in Callers : WF_vars(CloseStep(c))
  /\ \A s \in Senders : WF_vars(UserRawEnq(s))
  /\ WF_vars(RegisterSend) /\ WF_vars(OtherReconnect) /\ WF_vars(InitialConnect)
Spec == Init /\ [][Next]_vars /\ Fair
SafetySpec == Init /\ [][Next]_vars

-----------------------------------------------------------------------------
(* Properties *)

TypeOK ==
  /\ wg \in 0..(4 * MaxGen) /\ Len(inQ) <= QCap /\ Len(outQ) <= QCap
  /\ gen \in 0..MaxGen /\ (connected => gen >= 1 /\ sockOpen[gen])

\* C06: at most one DISCONNECTED per generation, exactly one REGISTER per successful connect
AtMostOneDisc == \A g \in Gens : fired[g].disc <= 1
RegisterOnce == \A g \in Gens : fired[g].reg = (IF g <= gen THEN 1 ELSE 0)
\* C06: Connected() is false when DISCONNECTED handlers start
DiscSeesDisconnected == \A g \in Gens : fired[g].disc >= 1 => ~discConn[g]
\* C06: a refused Connect leaves the existing connection fully working
NoCrash == ~crashed
\* C07 (fresh connection): a goroutine never tears down a connection that is not its own,
\* and a generation is only ever ended for a reason
OwnClose == \A g \in Gens : closedBy[g] \in IntClosers => closedBy[g][1] = g
ClosedForACause == \A g \in Gens : closedBy[g] # NoOne => cause[g]
\* C07 (no leak): once DISCONNECTED was dispatched for g, its wait-group goroutines are gone
GoneAfterDisc == \A g \in Gens : fired[g].disc >= 1 => \A r \in WgRoles : gpc[g][r] \in {"done", "closing"}
\* C09: every sender's lines appear on the wire in issue order, none twice
SenderLines(w, s) == SelectSeq(w, LAMBDA x : x[1] = "u" /\ x[2] = s)
WireOrdered ==
  \A g \in Gens, s \in Senders :
    LET ls == SenderLines(wire[g], s) IN \A i \in 1..Len(ls) : ls[i][3] = i
\* C09: at quiescence with the connection up, every issued line is on the wire
Quiescent(g) == connected /\ gen = g /\ outQ = <<>> /\ gpc[g].send = "sel" /\ \A s \in Senders : ~sblocked[s]
AllWritten == \A g \in Gens : (Quiescent(g) /\ MaxGen = 1) => \A s \in Senders : Len(SenderLines(wire[g], s)) = spos[s]

\* C07 liveness: every disconnect finishes - Close returns ...
CloseReturns == \A c \in Callers : (cpc[c] = "enter") ~> (cpc[c] = "done")
\* ... DISCONNECTED is delivered once something ended the generation ...
Ended(g) == sockOpen[g] /\ (eof[g] \/ ctx[g] \/ (werr[g] /\ gpc[g].send = "write"))
EndedGenDisconnects == \A g \in Gens : Ended(g) ~> (fired[g].disc = 1)
\* ... and nothing of the generation stays behind
NoLeak == \A g \in Gens : (fired[g].disc = 1) ~> (\A r \in Roles : gpc[g][r] \in {"done", "off"})
\* a reconnecting client gets a working connection: registration is sent on it
Registers == \A g \in Gens : (fired[g].reg = 1 /\ regLeft = 0) => TRUE

View == <<lifeVars, qVars, netq, rbuf, eof, srvLeft, srvReads, werr, goVars, closeVars, connVars, sendVars, obsVars>>
=============================================================================
