----------------------------- MODULE MCDispatch -----------------------------
EXTENDS Dispatch, Json
Q_Names == {"a", "A", "b"}
Q_Bodies == {"noop", "rmself", "rm", "panic"}
Q_IntBodies == {"noop", "rm"}
T_Bodies == {"noop", "rmself", "rm", "panic", "addfg", "addbg"}
T_IntBodies == {"noop", "rm", "addbg"}
S_Names == {"a", "A", "b", "ab", "Ab", "aB"}
\* the alphabet: one registration under each spelling, events under each spelling
N_Names == {SubSeq(Upper, i, i) : i \in 1..26} \cup {SubSeq(Lower, i, i) : i \in 1..26} \cup {"x" \o SubSeq(Upper, i, i) : i \in 1..26}
N_Bodies == {"noop"}
StateRec == [regs |-> regs, nextId |-> nextId, gone |-> gone]
Emit == PrintT("EDGE " \o ToJson([f |-> StateRec, o |-> lastOp', t |-> StateRec']))
View == state
=============================================================================
