----------------------------- MODULE MCDispatch -----------------------------
EXTENDS Dispatch, Json
Q_Names == {"a", "A", "b"}
Q_Bodies == {"noop", "rmself", "rm", "panic"}
Q_IntBodies == {"noop", "rm"}
T_Bodies == {"noop", "rmself", "rm", "panic", "addfg", "addbg"}
T_IntBodies == {"noop", "rm", "addbg"}
S_Names == {"a", "A", "b", "ab", "Ab", "aB"}
StateRec == [regs |-> regs, nextId |-> nextId, gone |-> gone]
Emit == PrintT("EDGE " \o ToJson([f |-> StateRec, o |-> lastOp', t |-> StateRec']))
View == state
=============================================================================
