INIT Init
NEXT Next
CONSTANT Thorough = TRUE
INVARIANT Emit
CHECK_DEADLOCK FALSE
