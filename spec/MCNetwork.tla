----------------------------- MODULE MCNetwork -----------------------------
EXTENDS Network
Q_Users == {"u1"}
Q_Chans == {"#x"}
Q_Pool == {"a", "b"}
Q_MyNicks == {"mx", "Me"}
T_Users == {"u1", "u2"}
T_Chans == {"#x", "#y"}
T_Pool == {"a", "b", "me2"}
T_MyNicks == {"mx", "Me"}
\* nick-centred universe (C17): requested, refused and forced nicks that are prefixes / extensions of each other
\* and of the configured nick "me", also borne by another user
N_Users == {"u1"}
N_Chans == {"#x"}
N_Pool == {"a", "A", "m", "mex"}   \* ("a" and "A": a rename that changes only the letter case)
N_MyNicks == {"m", "mex", "mx"}
Yes == TRUE
\* the full privilege alphabet (simulation)
S_Privs == {"q", "a", "o", "h", "v"}
S_PrivSets == {{}, {"o"}, {"v"}, {"o", "v"}, {"q"}, {"q", "o"}, {"a", "v"}, {"h"}, {"h", "v"}}
StateRec == [phase |-> phase, tried |-> tried, snick |-> snick, nick |-> nick, mem |-> mem, kn |-> kn, uh |-> uh, jn |-> jn,
             topic |-> topic, ktopic |-> ktopic, key |-> key, kkey |-> kkey, lim |-> lim, klim |-> klim, flags |-> flags, kflags |-> kflags, pendMode |-> pendMode, pendWho |-> pendWho,
             pendNick |-> pendNick, trk |-> trk, cloak |-> cloak, steps |-> steps]
Emit == PrintT("EDGE " \o ToJson([f |-> StateRec, o |-> lastOp', t |-> StateRec', view |-> View']))
MCView == state
=============================================================================
