------------------------------ MODULE Commands ------------------------------
(***************************************************************************)
(* What the exported command methods may put on the wire (C08) and how     *)
(* long texts are split (C11).  Byte strings are TLC strings whose         *)
(* characters are the bytes U+0000..U+00FF.                                *)
(*   Verb(m)              the verb every line written by method m starts with *)
(*   WireOK(m, w)         C08: w is a sequence of CRLF-terminated lines, no   *)
(*                        CR or LF inside a line, every line starts with the  *)
(*                        verb of m                                           *)
(*   SplitOK(t, L, ps)    C11: ps is a lossless split of t into bounded       *)
(*                        pieces                                              *)
(*   Encode(m, a, cfg)    growth beyond the listed properties: the exact      *)
(*                        line(s) for arguments free of CR/LF                 *)
(***************************************************************************)
EXTENDS Strings

Methods == {"Raw", "Pass", "Nick", "User", "Join", "Part", "Kick", "Quit", "Whois", "Who", "Privmsg", "Privmsgln",
            "Privmsgf", "Notice", "Ctcp", "CtcpReply", "Version", "Action", "Topic", "Mode", "Away", "Invite",
            "Oper", "VHost", "Ping", "Pong", "Cap", "Authenticate"}

Verb(m) ==
  CASE m \in {"Privmsg", "Privmsgln", "Privmsgf", "Ctcp", "Version", "Action"} -> "PRIVMSG"
    [] m \in {"Notice", "CtcpReply"} -> "NOTICE"
    [] m = "Raw" -> ""
    [] OTHER -> ToUpper(m)

\* the lines of a wire transcript: w must end in CRLF; the pieces between CRLFs
Lines(w) == LET p == SplitOn2(w, CR \o LF) IN SubSeq(p, 1, Len(p) - 1)
Terminated(w) == w = "" \/ HasSuffix(w, CR \o LF)

StartsWithVerb(l, v) == v = "" \/ l = v \/ HasPrefix(l, v \o " ")

WireOK(m, w) ==
  /\ Terminated(w)
  /\ \A i \in 1..Len(Lines(w)) :
       LET l == Lines(w)[i] IN
       /\ ~Contains1(l, CR) /\ ~Contains1(l, LF)
       /\ StartsWithVerb(l, Verb(m))

-----------------------------------------------------------------------------
(* C11 *)
EffLen(L) == IF L < 13 THEN 450 ELSE L
Marker == "..."
Unmark(p) == SubSeq(p, 1, Len(p) - 3)

SplitOK(t, L, ps) ==
  LET E == EffLen(L)  n == Len(ps) IN
  IF Len(t) <= E THEN ps = <<t>>
  ELSE /\ n >= 2
       /\ \A i \in 1..n : Len(ps[i]) <= E
       /\ \A i \in 1..(n - 1) : HasSuffix(ps[i], Marker) /\ Len(ps[i]) > 3
       /\ ps[n] # ""
       /\ Cat([i \in 1..n |-> IF i < n THEN Unmark(ps[i]) ELSE ps[i]]) = t

\* methods whose text is split, the text they split and the line each piece is wrapped in
Splitting == {"Privmsg", "Privmsgln", "Privmsgf", "Notice", "Ctcp", "CtcpReply", "Action"}
Clean(s) == ~Contains1(s, CR) /\ ~Contains1(s, LF)
AllClean(a) == \A i \in 1..Len(a) : Clean(a[i])
Rest(a, k) == JoinWith(SubSeq(a, k, Len(a)), " ")

\* the text a splitting method splits (Privmsgf is called with format "%s")
SplitText(m, a) ==
  CASE m \in {"Privmsg", "Notice", "Action"} -> a[2]
    [] m = "Privmsgf" -> a[3]
    [] m = "Privmsgln" -> Rest(a, 2)
    [] m \in {"Ctcp", "CtcpReply"} -> Rest(a, 3)

CtcpWrap(v, t, c, p) == v \o " " \o t \o " :" \o SOH \o ToUpper(c) \o (IF p = "" THEN "" ELSE " " \o p) \o SOH
PieceLine(m, a, p) ==
  CASE m \in {"Privmsg", "Privmsgln", "Privmsgf"} -> "PRIVMSG " \o a[1] \o " :" \o p
    [] m = "Notice" -> "NOTICE " \o a[1] \o " :" \o p
    [] m = "Ctcp" -> CtcpWrap("PRIVMSG", a[1], a[2], p)
    [] m = "CtcpReply" -> CtcpWrap("NOTICE", a[1], a[2], p)
    [] m = "Action" -> CtcpWrap("PRIVMSG", a[1], "ACTION", p)

\* C11 on a transcript: there are pieces ps with SplitOK and the transcript is exactly their lines.
\* The pieces are recovered from the lines by stripping the wrapper of PieceLine(m, a, "").
Head0(m, a) == LET e == PieceLine(m, a, "") IN IF m \in {"Ctcp", "CtcpReply", "Action"} THEN SubSeq(e, 1, Len(e) - 1) ELSE e
PieceOf(m, a, l) ==
  LET h == Head0(m, a) IN
  IF m \in {"Ctcp", "CtcpReply", "Action"}
    THEN (IF l = h \o SOH THEN "" ELSE SubSeq(l, Len(h) + 2, Len(l) - 1))
    ELSE SubSeq(l, Len(h) + 1, Len(l))
SplitWireOK(m, a, L, w) ==
  LET ls == Lines(w)
      ps == [i \in 1..Len(ls) |-> PieceOf(m, a, ls[i])]
  IN /\ Terminated(w) /\ Len(ls) >= 1
     /\ \A i \in 1..Len(ls) : ls[i] = PieceLine(m, a, ps[i])
     /\ SplitOK(SplitText(m, a), L, ps)

-----------------------------------------------------------------------------
(* Exact encoding for arguments free of CR and LF (growth beyond C08) *)
Opt(pre, s) == IF s = "" THEN "" ELSE pre \o s
Encode1(m, a, quitmsg) ==
  CASE m = "Raw" -> a[1]
    [] m = "Pass" -> "PASS " \o a[1]
    [] m = "Nick" -> "NICK " \o a[1]
    [] m = "User" -> "USER " \o a[1] \o " 12 * :" \o a[2]
    [] m = "Join" -> "JOIN " \o a[1] \o (IF Len(a) > 1 THEN " " \o a[2] ELSE "")
    [] m = "Part" -> "PART " \o a[1] \o Opt(" :", Rest(a, 2))
    [] m = "Kick" -> "KICK " \o a[1] \o " " \o a[2] \o Opt(" :", Rest(a, 3))
    [] m = "Quit" -> "QUIT :" \o (IF Rest(a, 1) = "" THEN quitmsg ELSE Rest(a, 1))
    [] m = "Whois" -> "WHOIS " \o a[1]
    [] m = "Who" -> "WHO " \o a[1]
    [] m = "Version" -> CtcpWrap("PRIVMSG", a[1], "VERSION", "")
    [] m = "Topic" -> "TOPIC " \o a[1] \o Opt(" :", Rest(a, 2))
    [] m = "Mode" -> "MODE " \o a[1] \o Opt(" ", Rest(a, 2))
    [] m = "Away" -> "AWAY" \o Opt(" :", Rest(a, 1))
    [] m = "Invite" -> "INVITE " \o a[1] \o " " \o a[2]
    [] m = "Oper" -> "OPER " \o a[1] \o " " \o a[2]
    [] m = "VHost" -> "VHOST " \o a[1] \o " " \o a[2]
    [] m = "Ping" -> "PING :" \o a[1]
    [] m = "Pong" -> "PONG :" \o a[1]
    [] m = "Authenticate" -> "AUTHENTICATE " \o a[1]
    [] m = "Cap" -> "CAP " \o a[1] \o (IF Len(a) > 1 THEN " :" \o Rest(a, 2) ELSE "")

\* single-line methods; Cap only while its capability list fits one line
SingleLine(m, a) == m \notin Splitting /\ (m = "Cap" => Len(Encode1(m, a, "")) <= 440)

\* what a transcript must satisfy, given the call c = [m, a, sl, quitmsg, wire]:
\* C08 ...
C08OK(c) == WireOK(c.m, c.wire)
\* ... C11 (texts without CR/LF; the claim is about the pieces, the exact wrapper is EncodeOK's business) ...
C11OK(c) ==
  (AllClean(c.a) /\ c.m \in Splitting) =>
     LET ls == Lines(c.wire)
         ps == [i \in 1..Len(ls) |-> PieceOf(c.m, c.a, ls[i])]
     IN Terminated(c.wire) /\ Len(ls) >= 1 /\ SplitOK(SplitText(c.m, c.a), c.sl, ps)
\* ... and the exact encoding (growth beyond the listed properties; a mismatch is reported as drift)
EncodeOK(c) ==
  /\ (AllClean(c.a) /\ SingleLine(c.m, c.a)) => c.wire = Encode1(c.m, c.a, c.quitmsg) \o CR \o LF
  /\ (AllClean(c.a) /\ c.m \in Splitting) => SplitWireOK(c.m, c.a, c.sl, c.wire)
=============================================================================
