SPECIFICATION Spec
CONSTANTS
  Names <- Q_Names
  ChanNames <- Q_Chans
  Me0 = "a"
  Infos <- None
  NModeStrs <- None
  Topics <- None
  CModeCalls <- Q_CModeCalls
VIEW View
INVARIANTS TypeOK MeStays
PROPERTIES RenameCarries WipeForgetsChannels DelChannelOrphans DelNickRemovesMemberships
ACTION_CONSTRAINT Emit
CHECK_DEADLOCK FALSE
