---------------------------- MODULE CopiesTrace ----------------------------
(***************************************************************************)
(* C15 on recorded events: every handler invocation gets its own copy of   *)
(* the line.  One record per dispatched line:                              *)
(*   [raw, args, hasTags, tags,                                            *)
(*    invs : Seq([set, h, argsId, tagsId, args, hasTags, tags])]           *)
(* argsId / tagsId are the storage identities (address of the argument     *)
(* array, address of the tag map) the invocation received, args/tags what  *)
(* it saw on entry - before scribbling over everything (elements, tags,   *)
(* and an append); slots names every slot of the argument array's         *)
(* capacity.  The predicate is  *)
(* the storage rule of Dispatch.tla: identities pairwise distinct over all *)
(* invocations of the three sets, content on entry = the parsed event.     *)
(***************************************************************************)
EXTENDS Naturals, Sequences, FiniteSets, TLC, TLCExt, Json

TraceLog == ndJsonDeserialize("trace.ndjson")
VARIABLE l
SetOf(s) == {s[i] : i \in DOMAIN s}

Equal(r, v) == /\ v.args = r.args
               /\ v.hasTags = r.hasTags
               /\ SetOf(v.tags) = SetOf(r.tags)

\* zero-length argument lists may legitimately share the runtime's zero-size base address
OwnStorage(r) ==
  \A i, j \in 1..Len(r.invs) : i # j =>
     /\ (Len(r.args) > 0) => r.invs[i].argsId # r.invs[j].argsId
     /\ r.hasTags => r.invs[i].tagsId # r.invs[j].tagsId
     \* not only the elements in use: the whole capacity of the argument array (what append may write to)
     /\ SetOf(r.invs[i].slots) \cap SetOf(r.invs[j].slots) = {}

\* growth: the reception time stamped on the line is the same in every copy (and not the zero time)
SameTime(r) == \A i, j \in 1..Len(r.invs) : r.invs[i].time = r.invs[j].time /\ r.invs[i].time # "0001-01-01T00:00:00Z"

C15OK(r) == /\ Len(r.invs) = r.expected          \* every registered handler of the three sets ran
            /\ SameTime(r)
            /\ \A i \in 1..Len(r.invs) : Equal(r, r.invs[i])
            /\ OwnStorage(r)

TInit == l = 1
Note(i) == IF Cardinality(TLCGet(2)) < 4 THEN PrintT(<<"NONCONFORMING", i, TraceLog[i].raw, [k \in 1..Len(TraceLog[i].invs) |-> <<TraceLog[i].invs[k].set, TraceLog[i].invs[k].argsId, TraceLog[i].invs[k].tagsId, TraceLog[i].invs[k].args>>]>>) ELSE TRUE
TNext == /\ l <= Len(TraceLog)
         /\ IF C15OK(TraceLog[l]) THEN TRUE ELSE Note(l) /\ TLCSet(2, TLCGet(2) \cup {l})
         /\ l' = l + 1
TraceSpec == TInit /\ [][TNext]_l
HW == TLCSet(1, IF l > TLCGet(1) THEN l ELSE TLCGet(1))
ASSUME TLCSet(1, 0) /\ TLCSet(2, {})
Accepted ==
  /\ TLCGet(1) = Len(TraceLog) + 1
  /\ IF TLCGet(2) = {} THEN TRUE
     ELSE Print(<<"REJECTED at event", Cardinality(TLCGet(2)), "lines whose handlers did not get private equal copies, indices", TLCGet(2)>>, FALSE)
=============================================================================
