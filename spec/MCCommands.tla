----------------------------- MODULE MCCommands -----------------------------
(* The call universe of C08 / C11, enumerated by TLC and executed by the driver. *)
EXTENDS Commands
CONSTANT Thorough
VARIABLE c

Long == Rep("A", 600)
Payloads == {"", "x", "a b", "x" \o CR \o "y", "x" \o LF \o "y", "x" \o CR \o LF \o "y", "x" \o LF \o "QUIT", "x" \o CR \o "QUIT :y",
             LF, CR \o LF \o "PING 1", "x" \o LF \o "QUIT :y" \o CR \o LF, "a" \o CR \o LF \o "b" \o LF, "a" \o SOH \o "b", SOH \o "x" \o SOH, Long, SOH \o "ACTION " \o Rep("waves. ", 90) \o SOH,
             "a" \o NUL \o "b", "a" \o NUL \o "b" \o CR \o LF \o "QUIT :y", NUL \o LF \o "QUIT", "x" \o LF \o NUL \o "y", SOH \o NUL \o CR \o "z", Rep("A b. ", 60) \o LF \o Rep("c", 300)}
  \cup (IF Thorough THEN {CR, " ", ":", Rep("B", 511), Rep("B", 509), Rep("ab, cd. ", 80), Rep("x ", 300) \o CR \o LF \o "QUIT", LF \o LF, "x" \o CR} ELSE {})
SplitLens == IF Thorough THEN {0 - 1, 0, 12, 13, 14, 23, 450, 600} ELSE {0, 13, 450}
OK == "ok"

Arity == [Raw |-> 1, Pass |-> 1, Nick |-> 1, User |-> 2, Join |-> 2, Part |-> 2, Kick |-> 3, Quit |-> 1, Whois |-> 1, Who |-> 1,
          Privmsg |-> 2, Privmsgln |-> 2, Privmsgf |-> 3, Notice |-> 2, Ctcp |-> 3, CtcpReply |-> 3, Version |-> 1, Action |-> 2,
          Topic |-> 2, Mode |-> 2, Away |-> 1, Invite |-> 2, Oper |-> 2, VHost |-> 2, Ping |-> 1, Pong |-> 1, Cap |-> 2, Authenticate |-> 1]

\* one poisoned position (two in the thorough universe), the others benign
ArgsFor(m) ==
  LET n == Arity[m]
      Pos == IF m = "Privmsgf" THEN {1, 3} ELSE 1..n
      Fill(i) == IF m = "Privmsgf" /\ i = 2 THEN "%s" ELSE OK
      One == {[i \in 1..n |-> IF i = k THEN p ELSE Fill(i)] : k \in Pos, p \in Payloads}
      Two == IF Thorough /\ n >= 2
               THEN {[i \in 1..n |-> IF i = 1 THEN p ELSE IF i = n THEN q ELSE Fill(i)] :
                       p \in Payloads, q \in {"x" \o LF \o "QUIT", Long, ""}}
               ELSE {}
      \* a poisoned first argument together with a text that has to be split (each harmless alone)
      DirtyLong == IF m \in Splitting /\ n >= 2
               THEN {[i \in 1..n |-> IF i = 1 THEN p ELSE IF i = n THEN q ELSE Fill(i)] :
                       p \in {"x" \o LF \o "QUIT", "#c" \o CR \o LF \o "QUIT :y", "a" \o NUL \o "b" \o LF \o "z"},
                       q \in {Long, Rep("ab, cd. ", 80)}}
               ELSE {}
  IN One \cup Two \cup DirtyLong
CallsOf(m) == {[m |-> m, a |-> a, sl |-> IF m \in Splitting THEN sl ELSE 450] : a \in ArgsFor(m), sl \in SplitLens}
Calls == UNION {CallsOf(m) : m \in Methods}

Init == c \in Calls
Next == UNCHANGED c
Emit == PrintT("CALL " \o ToJson(c))
=============================================================================
