INIT Init
NEXT Next
CONSTANTS
  Thorough = TRUE
  Shard = 6
  NShards = 8
INVARIANTS WF Emit
CHECK_DEADLOCK FALSE
