----------------------------- MODULE ConnTrace -----------------------------
(***************************************************************************)
(* Trace validation of the real client against the lifecycle model         *)
(* (implementation conformance of Conn.tla).  The events are the verif     *)
(* hooks of client/connection.go, recorded with the goroutine that emitted *)
(* them (harness/tracer).  The trace specification keeps the client-side   *)
(* variables of Conn.tla - connected, mu, gen, wg, the two queues, who     *)
(* closed which generation, the lifecycle events fired - and lets every    *)
(* logged event take the corresponding step:                               *)
(*   conn.lock / conn.up / conn.unlock      Connect's critical section     *)
(*   close.lock / noop / mark / waited / unlock   close(sock)              *)
(*   recv.enq.begin/end, loop.deq           the in queue (FIFO, capacity)  *)
(*   raw.enq.begin/end, send.deq            the out queue                  *)
(*   recv.err, send.err, send.ctx, loop.ctx, ping.exit    wg.Done          *)
(*   disp.begin(REGISTER | DISCONNECTED)    lifecycle events               *)
(* What the code cannot log atomically is a silent step placed by TLC: the *)
(* moment a value enters a channel (EnqIn, EnqOut) and every item the      *)
(* drain loop of close() takes out (DrainIn, DrainOut).  Conn.tla's own    *)
(* invariants AtMostOneDisc and OwnClose are evaluated in every state, the *)
(* guards check mutual exclusion, the wait group (wg = 0 when Wait returns *)
(* and when the next connection starts), ownership of close and the queue  *)
(* discipline.  A rejection here means the code no longer follows the      *)
(* model (DRIFT); it is not by itself a violation of a listed property.    *)
(***************************************************************************)
EXTENDS Conn, Json, TLCExt

TraceLog == ndJsonDeserialize("trace.ndjson")

VARIABLES l,        \* next event
          holder,   \* goroutine holding the lifecycle lock (0: free)
          cphase,   \* [goroutine -> [tg, ph]] for goroutines inside close(sock)
          pin, din, \* lines being enqueued into in by recv: pending / done (as <<goroutine, line>>)
          pout, dout,
          tin, tout, \* an item the consumer has already received from the channel but not yet logged
                     \* (a receive is logged after it happened; at most one per consumer)
          cap       \* queue capacity of the scenario
tvars == <<vars, l, holder, cphase, pin, din, pout, dout, tin, tout, cap>>

Ev == TraceLog[l]
IsEvent(e) == l <= Len(TraceLog) /\ TraceLog[l].ev = e /\ l' = l + 1
Keep == UNCHANGED <<netVars, goVars, cpc, cgen, connVars, sendVars, discConn, cause, crashed, sockOpen, ctx>>

TInit ==
  /\ Init /\ l = 1 /\ holder = 0 /\ cphase = <<>> /\ pin = {} /\ din = {} /\ pout = {} /\ dout = {} /\ tin = {} /\ tout = {} /\ cap = 32

TReset ==
  /\ IsEvent("reset")
  /\ holder = 0 /\ ~connected /\ wg = 0            \* nothing of the previous scenario is left
  /\ cap' = Ev.qcap
  /\ connected' = FALSE /\ mu' = NoOne /\ gen' = 0 /\ wg' = 0 /\ inQ' = <<>> /\ outQ' = <<>>
  /\ closedBy' = [g \in Gens |-> NoOne] /\ fired' = [g \in Gens |-> [reg |-> 0, disc |-> 0]]
  /\ holder' = 0 /\ cphase' = <<>> /\ pin' = {} /\ din' = {} /\ pout' = {} /\ dout' = {} /\ tin' = {} /\ tout' = {}
  /\ Keep

Same(S) == UNCHANGED S

\* ---- Connect
TConnLock ==
  /\ IsEvent("conn.lock") /\ holder = 0 /\ holder' = Ev.g
  /\ Same(<<connected, mu, gen, wg, inQ, outQ, closedBy, fired, cphase, pin, din, pout, dout, tin, tout, cap>>) /\ Keep
TConnRefused ==
  /\ IsEvent("conn.refused") /\ holder = Ev.g
  /\ Same(<<connected, mu, gen, wg, inQ, outQ, closedBy, fired, holder, cphase, pin, din, pout, dout, tin, tout, cap>>) /\ Keep
TConnUp ==
  /\ IsEvent("conn.up") /\ holder = Ev.g
  /\ ~connected /\ wg = 0                           \* no goroutine of an earlier connection is left
  /\ Ev.gen = gen + 1
  /\ connected' = TRUE /\ gen' = gen + 1 /\ wg' = Ev.nwg /\ inQ' = <<>> /\ outQ' = <<>>
  /\ pin' = {} /\ din' = {} /\ pout' = {} /\ dout' = {} /\ tin' = {} /\ tout' = {}
  /\ Same(<<mu, closedBy, fired, holder, cphase, cap>>) /\ Keep
TConnUnlock ==
  /\ IsEvent("conn.unlock") /\ holder = Ev.g /\ holder' = 0
  /\ Same(<<connected, mu, gen, wg, inQ, outQ, closedBy, fired, cphase, pin, din, pout, dout, tin, tout, cap>>) /\ Keep

\* ---- the in queue
TRecvBegin ==
  /\ IsEvent("recv.enq.begin") /\ pin' = pin \cup {<<Ev.g, Ev.line>>}
  /\ Same(<<connected, mu, gen, wg, inQ, outQ, closedBy, fired, holder, cphase, din, pout, dout, tin, tout, cap>>) /\ Keep
EnqIn ==
  /\ \E p \in pin : /\ Len(inQ) < cap /\ inQ' = Append(inQ, p[2])
                    /\ pin' = pin \ {p} /\ din' = din \cup {p}
  /\ Same(<<connected, mu, gen, wg, outQ, closedBy, fired, holder, cphase, pout, dout, tin, tout, cap, l>>) /\ Keep
TRecvEnd ==
  /\ IsEvent("recv.enq.end") /\ <<Ev.g, Ev.line>> \in din /\ din' = din \ {<<Ev.g, Ev.line>>}
  /\ Same(<<connected, mu, gen, wg, inQ, outQ, closedBy, fired, holder, cphase, pin, pout, dout, tin, tout, cap>>) /\ Keep
TakeIn ==
  /\ tin = {} /\ inQ # <<>> /\ tin' = {Head(inQ)} /\ inQ' = Tail(inQ)
  /\ Same(<<connected, mu, gen, wg, outQ, closedBy, fired, holder, cphase, pin, din, pout, dout, tout, cap, l>>) /\ Keep
TLoopDeq ==
  /\ IsEvent("loop.deq") /\ tin = {Ev.line} /\ tin' = {}
  /\ Same(<<connected, mu, gen, wg, inQ, outQ, closedBy, fired, holder, cphase, pin, din, pout, dout, tout, cap>>) /\ Keep

\* ---- the out queue
TRawBegin ==
  /\ IsEvent("raw.enq.begin") /\ pout' = pout \cup {<<Ev.g, Ev.out>>}
  /\ Same(<<connected, mu, gen, wg, inQ, outQ, closedBy, fired, holder, cphase, pin, din, dout, tin, tout, cap>>) /\ Keep
EnqOut ==
  /\ \E p \in pout : /\ Len(outQ) < cap /\ outQ' = Append(outQ, p[2])
                     /\ pout' = pout \ {p} /\ dout' = dout \cup {p}
  /\ Same(<<connected, mu, gen, wg, inQ, closedBy, fired, holder, cphase, pin, din, tin, tout, cap, l>>) /\ Keep
TRawEnd ==
  /\ IsEvent("raw.enq.end") /\ <<Ev.g, Ev.out>> \in dout /\ dout' = dout \ {<<Ev.g, Ev.out>>}
  /\ Same(<<connected, mu, gen, wg, inQ, outQ, closedBy, fired, holder, cphase, pin, din, pout, tin, tout, cap>>) /\ Keep
TakeOut ==
  /\ tout = {} /\ outQ # <<>> /\ tout' = {Head(outQ)} /\ outQ' = Tail(outQ)
  /\ Same(<<connected, mu, gen, wg, inQ, closedBy, fired, holder, cphase, pin, din, pout, dout, tin, cap, l>>) /\ Keep
TSendDeq ==
  /\ IsEvent("send.deq") /\ tout = {Ev.out} /\ tout' = {}
  /\ Same(<<connected, mu, gen, wg, inQ, outQ, closedBy, fired, holder, cphase, pin, din, pout, dout, tin, cap>>) /\ Keep

\* ---- goroutines leaving: wg.Done
TDone ==
  /\ \/ IsEvent("recv.err") \/ IsEvent("send.err") \/ IsEvent("send.ctx") \/ IsEvent("loop.ctx") \/ IsEvent("ping.exit")
  /\ wg > 0 /\ wg' = wg - 1
  /\ Same(<<connected, mu, gen, inQ, outQ, closedBy, fired, holder, cphase, pin, din, pout, dout, tin, tout, cap>>) /\ Keep

\* ---- close(sock)
InClose(g) == g \in DOMAIN cphase
TCloseLock ==
  /\ IsEvent("close.lock") /\ holder = 0 /\ holder' = Ev.g /\ ~InClose(Ev.g)
  /\ cphase' = [x \in DOMAIN cphase \cup {Ev.g} |-> IF x = Ev.g THEN [tg |-> Ev.tg, ph |-> "locked"] ELSE cphase[x]]
  /\ Same(<<connected, mu, gen, wg, inQ, outQ, closedBy, fired, pin, din, pout, dout, tin, tout, cap>>) /\ Keep
Owns(g) == cphase[g].tg = 0 \/ cphase[g].tg = gen
TCloseNoop ==
  /\ IsEvent("close.noop") /\ holder = Ev.g /\ InClose(Ev.g) /\ cphase[Ev.g].ph = "locked"
  /\ (~connected \/ ~Owns(Ev.g))                     \* nothing to do: not connected, or not this goroutine's connection
  /\ holder' = 0 /\ cphase' = [x \in DOMAIN cphase \ {Ev.g} |-> cphase[x]]
  /\ Same(<<connected, mu, gen, wg, inQ, outQ, closedBy, fired, pin, din, pout, dout, tin, tout, cap>>) /\ Keep
TCloseMark ==
  /\ IsEvent("close.mark") /\ holder = Ev.g /\ InClose(Ev.g) /\ cphase[Ev.g].ph = "locked"
  /\ connected /\ Owns(Ev.g)                         \* only the current connection, only by its own goroutines (or the user)
  /\ connected' = FALSE
  /\ closedBy' = [closedBy EXCEPT ![gen] = IF cphase[Ev.g].tg = 0 THEN <<0, "user">> ELSE <<cphase[Ev.g].tg, "recv">>]
  /\ cphase' = [cphase EXCEPT ![Ev.g].ph = "drain", ![Ev.g].tg = gen]
  /\ Same(<<mu, gen, wg, inQ, outQ, fired, holder, pin, din, pout, dout, tin, tout, cap>>) /\ Keep
Draining == \E g \in DOMAIN cphase : cphase[g].ph = "drain"
DrainIn ==
  /\ Draining /\ inQ # <<>> /\ inQ' = Tail(inQ)
  /\ Same(<<connected, mu, gen, wg, outQ, closedBy, fired, holder, cphase, pin, din, pout, dout, tin, tout, cap, l>>) /\ Keep
DrainOut ==
  /\ Draining /\ outQ # <<>> /\ outQ' = Tail(outQ)
  /\ Same(<<connected, mu, gen, wg, inQ, closedBy, fired, holder, cphase, pin, din, pout, dout, tin, tout, cap, l>>) /\ Keep
TCloseWaited ==
  /\ IsEvent("close.waited") /\ InClose(Ev.g) /\ cphase[Ev.g].ph = "drain"
  /\ wg = 0                                          \* wg.Wait() has returned
  /\ holder = Ev.g /\ holder' = 0                    \* (the lock is released right after this hook, before close.unlock is logged)
  /\ cphase' = [cphase EXCEPT ![Ev.g].ph = "waited"]
  /\ Same(<<connected, mu, gen, wg, inQ, outQ, closedBy, fired, pin, din, pout, dout, tin, tout, cap>>) /\ Keep
TCloseUnlock ==
  /\ IsEvent("close.unlock") /\ InClose(Ev.g) /\ cphase[Ev.g].ph = "waited"
  /\ cphase' = [cphase EXCEPT ![Ev.g].ph = "dispatch"]
  /\ Same(<<connected, mu, gen, wg, inQ, outQ, closedBy, fired, holder, pin, din, pout, dout, tin, tout, cap>>) /\ Keep

\* ---- lifecycle events
TDisp ==
  /\ IsEvent("disp.begin")
  /\ IF Ev.cmd = "DISCONNECTED"
       THEN /\ InClose(Ev.g) /\ cphase[Ev.g].ph = "dispatch"        \* dispatched by the closer, after Unlock
            /\ fired' = [fired EXCEPT ![cphase[Ev.g].tg].disc = @ + 1]
            /\ cphase' = [x \in DOMAIN cphase \ {Ev.g} |-> cphase[x]]
       ELSE /\ gen >= 1 /\ fired' = [fired EXCEPT ![gen].reg = @ + 1] /\ cphase' = cphase
  /\ Same(<<connected, mu, gen, wg, inQ, outQ, closedBy, holder, pin, din, pout, dout, tin, tout, cap>>) /\ Keep

TNext == TReset \/ TConnLock \/ TConnRefused \/ TConnUp \/ TConnUnlock \/ TRecvBegin \/ EnqIn \/ TRecvEnd \/ TLoopDeq
         \/ TakeIn \/ TakeOut \/ TRawBegin \/ EnqOut \/ TRawEnd \/ TSendDeq \/ TDone \/ TCloseLock \/ TCloseNoop \/ TCloseMark \/ DrainIn \/ DrainOut
         \/ TCloseWaited \/ TCloseUnlock \/ TDisp
TraceSpec == TInit /\ [][TNext]_tvars

\* evaluated in every state of every explored prefix
TraceInv == AtMostOneDisc /\ OwnClose /\ (\A g \in Gens : fired[g].reg <= 1) /\ Len(inQ) <= cap /\ Len(outQ) <= cap

\* high-water mark of consumed events; once one behaviour has consumed the whole log the search stops
\* (every other state is pruned), so an accepted trace costs one depth-first descent
HW == /\ TLCSet(1, IF l > TLCGet(1) THEN l ELSE TLCGet(1))
      /\ (TLCGet(1) <= Len(TraceLog) \/ l = Len(TraceLog) + 1)
ASSUME TLCSet(1, 0)
Accepted ==
  IF TLCGet(1) = Len(TraceLog) + 1 THEN TRUE
  ELSE Print(<<"REJECTED at event", TLCGet(1), TraceLog[TLCGet(1)]>>, FALSE)
TView == <<connected, gen, wg, inQ, outQ, closedBy, fired, l, holder, cphase, pin, din, pout, dout, tin, tout>>
=============================================================================
