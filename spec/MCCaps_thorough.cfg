SPECIFICATION Spec
CONSTANTS
  Universe = {"a","b","c"}
  MaxSteps = 4
  MaxGen = 2
VIEW MCView
PROPERTIES RequestsOnlyCommon EndsNegotiation
ACTION_CONSTRAINT Emit
CHECK_DEADLOCK FALSE
