SPECIFICATION Spec
CONSTANTS
  NLines = 3
  Welcome = 1
  FgH = {"f1"}
  BgH = {"b1"}
  Outcomes = {"ret"}
  BgBeforeInt = FALSE
  LoopLeavesEarly = TRUE
  NoRecover = FALSE
INVARIANTS OneLineAtATime InOrder ConnectedPlacement DiscAfterFg AppliedBeforeHandlers FgSeesNothingLater PanicsRecovered ExactlyOnce
PROPERTY AllDelivered
CHECK_DEADLOCK FALSE
