------------------------------- MODULE MCCaps -------------------------------
EXTENDS Caps, Json
StateRec == [wanted |-> wanted, mech |-> mech, adv |-> adv, held |-> held, phase |-> phase, gen |-> gen, steps |-> steps]
Emit == PrintT("EDGE " \o ToJson([f |-> StateRec, o |-> lastOp', t |-> StateRec']))
MCView == state
=============================================================================
