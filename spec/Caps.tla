-------------------------------- MODULE Caps --------------------------------
(***************************************************************************)
(* IRCv3 capability negotiation and SASL as the client must conduct them   *)
(* (property C19).  A configuration is the set of capabilities the user    *)
(* asked for and the SASL mechanism, if any.  Server events:               *)
(*   LS(adv)        CAP * LS :adv      - what the server supports          *)
(*   Ack(S)         CAP me ACK :S      - S may hold "-cap" (cap disabled)  *)
(*   Nak(S)         CAP me NAK :S      - in answer to any request          *)
(*   Plus           AUTHENTICATE +     - the server asks for the SASL data *)
(*   Outcome(n)     903 / 904 / 908                                        *)
(*   Reconnect      the connection ends (at any point of the negotiation)  *)
(*                  and the client connects again: a new negotiation that  *)
(*                  owes nothing to the previous connection                *)
(* Every action records the line sent and what a conforming client writes  *)
(* in response (expect; the union of the CAP REQ lines is given as a set   *)
(* because a long request may be split), and View is what HasCapability /  *)
(* SupportsCapability must answer afterwards.  Every edge is replayed on a *)
(* real client (harness/caps).                                             *)
(***************************************************************************)
EXTENDS Naturals, Sequences, FiniteSets, TLC

CONSTANTS Universe,     \* capability names other than "sasl"
          MaxSteps,
          MaxGen        \* connections per client

AllCaps == Universe \cup {"sasl"}
Mechs == {"none", "PLAIN", "EXTERNAL", "LOGIN"}   \* LOGIN takes two steps: user name, then - on the challenge "Password:" - the password

VARIABLES
  wanted,   \* capabilities configured by the user
  mech,     \* SASL mechanism configured
  adv,      \* everything the server has advertised
  held,     \* capabilities whose latest acknowledgement enabled them
  phase,    \* "ls" (CAP LS sent) | "req" | "authwait" | "authsent" | "authsent2" | "done"
  gen,      \* number of the current connection
  steps, lastOp

state == <<wanted, mech, adv, held, phase, gen, steps>>
vars == <<state, lastOp>>

Want == wanted \cup (IF mech = "none" THEN {} ELSE {"sasl"})
Op(name, line, expect, req) == lastOp' = [ev |-> name, line |-> line, expect |-> expect, req |-> req]
Step == steps < MaxSteps /\ steps' = steps + 1
Join(S) == S   \* rendered by the driver (space separated, any order)

Init ==
  /\ wanted \in SUBSET Universe /\ mech \in Mechs
  /\ adv = {} /\ held = {} /\ phase = "ls" /\ steps = 0 /\ gen = 1
  /\ lastOp = [ev |-> "connect", line |-> "", expect |-> <<"CAP LS">>, req |-> {}]

\* the server lists its capabilities: the client requests wanted /\ advertised, or ends at once
LS(S) ==
  /\ phase = "ls" /\ Step
  /\ adv' = adv \cup S
  /\ LET r == Want \cap (adv \cup S) IN
       IF r = {} THEN phase' = "done" /\ Op("ls", [verb |-> "LS", caps |-> S], <<"CAP END">>, {})
       ELSE phase' = "req" /\ Op("ls", [verb |-> "LS", caps |-> S], <<"CAP REQ">>, r)
  /\ UNCHANGED <<wanted, mech, held, gen>>

\* an acknowledgement; entries are [c |-> cap, on |-> BOOLEAN] ("-cap" when on is FALSE)
Ack(S) ==
  /\ phase \in {"req", "done"} /\ Step /\ S # {}
  /\ \A x, y \in S : x.c = y.c => x = y
  /\ held' = (held \ {x.c : x \in S}) \cup {x.c : x \in {y \in S : y.on}}
  /\ LET sasl == mech # "none" /\ [c |-> "sasl", on |-> TRUE] \in S IN
       IF sasl THEN phase' = "authwait" /\ Op("ack", [verb |-> "ACK", caps |-> S], <<"AUTHENTICATE " \o mech>>, {})
       ELSE phase' = "done" /\ Op("ack", [verb |-> "ACK", caps |-> S], <<"CAP END">>, {})
  /\ UNCHANGED <<wanted, mech, adv, gen>>

\* a refusal names the capabilities of the refused request; nothing changes on the server, so nothing is
\* held or lost - also when it comes for a later request, after capabilities have been acknowledged
Nak(S) ==
  /\ phase \in {"req", "done"} /\ Step
  /\ phase' = "done" /\ Op("nak", [verb |-> "NAK", caps |-> S], <<"CAP END">>, {})
  /\ UNCHANGED <<wanted, mech, adv, held, gen>>

\* the server asks for the SASL data: only now is it sent, encoded as the mechanism prescribes
Plus ==
  /\ phase = "authwait" /\ Step
  /\ phase' = "authsent" /\ Op("plus", [verb |-> "AUTHENTICATE", caps |-> {}], <<"AUTHENTICATE <" \o mech \o ">">>, {})
  /\ UNCHANGED <<wanted, mech, adv, held, gen>>

\* a further challenge of a multi-step mechanism: it is decoded, handed to the mechanism, and the answer encoded
Challenge ==
  /\ mech = "LOGIN" /\ phase = "authsent" /\ Step
  /\ phase' = "authsent2" /\ Op("challenge", [verb |-> "CHALLENGE", caps |-> {}], <<"AUTHENTICATE <LOGIN2>">>, {})
  /\ UNCHANGED <<wanted, mech, adv, held, gen>>

Outcome(n) ==
  /\ phase \in {"authwait", "authsent", "authsent2"} /\ Step
  /\ phase' = "done" /\ Op("outcome", [verb |-> n, caps |-> {}], <<"CAP END">>, {})
  /\ UNCHANGED <<wanted, mech, adv, held, gen>>

\* the connection ends and the client connects again: what the previous server advertised and
\* acknowledged says nothing about this one
Reconnect ==
  /\ gen < MaxGen /\ Step
  /\ gen' = gen + 1
  /\ adv' = {} /\ held' = {} /\ phase' = "ls"
  /\ Op("reconnect", [verb |-> "RECONNECT", caps |-> {}], <<"CAP LS">>, {})
  /\ UNCHANGED <<wanted, mech>>

\* the user calls Connect although the client is connected: refused, and nothing negotiated so far may change
ConnectAgain ==
  /\ Step /\ lastOp.ev # "connectagain"
  /\ Op("connectagain", [verb |-> "CONNECTAGAIN", caps |-> {}], <<>>, {})
  /\ UNCHANGED <<wanted, mech, adv, held, phase, gen>>

AckSets == {S \in SUBSET {[c |-> c, on |-> b] : c \in AllCaps, b \in BOOLEAN} : S # {} /\ Cardinality(S) <= 2 /\ \A x, y \in S : x.c = y.c => x = y}
NakSets == {S \in SUBSET AllCaps : Cardinality(S) <= 2}
Next ==
  \/ \E S \in SUBSET AllCaps : LS(S)
  \/ \E S \in AckSets : Ack(S)
  \/ (\E S \in NakSets : Nak(S)) \/ Plus \/ Challenge \/ Reconnect \/ ConnectAgain
  \/ \E n \in {"903", "904", "908"} : Outcome(n)
Spec == Init /\ [][Next]_vars

View == [held |-> held, adv |-> adv, phase |-> phase]

\* C19 on the model: only capabilities that are wanted and advertised are ever requested;
\* every way out of the negotiation ends with CAP END
RequestsOnlyCommon == [][lastOp'.req \subseteq (Want \cap adv')]_vars
EndsNegotiation == [][(phase # "done" /\ phase' = "done") => lastOp'.expect = <<"CAP END">>]_vars
=============================================================================
