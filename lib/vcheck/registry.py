"""The table behind MANIFEST.json (bin/mkmanifest)."""
HOOK_COMMITS = ["6d53df4"]

MC_NOTE = ("Trusted: TLC and its fingerprinting, the Go toolchain, the projection functions of the harness. The exhaustive results hold for the "
           "small constants of the cfg files named in the evidence; beyond them the evidence is the replayed/validated executions only.")

CHECKS = {
    "C12": {
        "engine": "Tracker.tla", "level": "model_checking", "design_ref": "7 (C12), 4.4",
        "technique": "TLA+ relational model; TLC closure of reachable states; every state-graph edge replayed on the real tracker + TLC trace validation of recorded random histories",
        "text": "TLC computes the closure of Tracker.tla over a small name universe, checks the model's own invariants and action properties, and every edge "
                "(state, call, arguments -> result, successor) is replayed on a real state.Tracker with every return value and the full projection compared; "
                "long random behaviours (-simulate) and Go-generated histories over a larger universe are validated in both directions. Exhaustive for the "
                "stated universe, sampled beyond.",
        "note": MC_NOTE,
    },
    "C14": {
        "engine": "Tracker.tla", "level": "model_checking", "design_ref": "7 (C14)",
        "technique": "snapshot scribbling during TLC edge replay; linearizability of recorded concurrent histories decided by TLC (silent Lin step in TrackerTrace.tla); go -race as supplement",
        "text": "Values are immutable in the model, so the model defines snapshot semantics: every returned object is scribbled over and re-read while the "
                "edge replay continues. Concurrent histories of 2-16 callers are recorded in real-time order and TLC searches for a linearization that "
                "explains every result. Data-race freedom proper is outside TLA+ and is delegated to the race detector on the same driver.",
        "note": MC_NOTE + " Real schedules are sampled, not enumerated.",
    },
}

NOT_APPLICABLE = {}
