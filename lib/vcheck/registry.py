"""The table behind MANIFEST.json (bin/mkmanifest)."""
HOOK_COMMITS = ["6d53df4"]

MC_NOTE = ("Trusted: TLC and its fingerprinting, the Go toolchain, the projection functions of the harness. The exhaustive results hold for the "
           "small constants of the cfg files named in the evidence; beyond them the evidence is the replayed/validated executions only.")

CHECKS = {
    "C01": {
        "engine": "IrcLine.tla", "level": "model_checking", "design_ref": "7 (C01)",
        "technique": "TLA+ grammar-as-components spec (Render/Expected); TLC enumerates the bounded component product, every message replayed on ParseLine and over a real connection; TLC trace validation of randomly drawn messages",
        "text": "IrcLine.tla defines what a conforming parser must deliver for every well-formed message. TLC enumerates the full product of small component alphabets "
                "(tags incl. all five escapes, sources, verbs, middles, trailing incl. CTCP forms, spacing) and every message is replayed through ParseLine, the accessors and a "
                "real connection in random read segmentations; messages drawn by the driver from large alphabets are validated by TLC per record. Bounded-exhaustive plus sampled; "
                "TLC proves nothing beyond the alphabets.",
        "note": MC_NOTE,
    },
    "C02": {
        "engine": "IrcLine.tla", "level": "exploration", "design_ref": "7 (C02), 8",
        "technique": "bounded-exhaustive byte-string sweep over the special alphabet declared with the IrcLine spec, then child-process connection sessions with markers (survival + in-order processing)",
        "text": "Every string up to length L over the special alphabet and every prefix x verb-word x suffix string goes through ParseLine and Text/Target/Public under recover; every "
                "panic class, every built-in verb x parameter shape x source, and random soups are then sent through real connections in child processes (tracking on/off), each "
                "probe followed by a marker that must be dispatched in order. The enumeration is executed by the Go driver; TLC contributes the oracle only, which is why the level is exploration.",
        "note": "Trusted: the Go toolchain and the harness. Inputs beyond the bounded alphabet/length are only sampled.",
    },
    "C12": {
        "engine": "Tracker.tla", "level": "model_checking", "design_ref": "7 (C12), 4.4",
        "technique": "TLA+ relational model; TLC closure of reachable states; every state-graph edge replayed on the real tracker + TLC trace validation of recorded random histories",
        "text": "TLC computes the closure of Tracker.tla over a small name universe, checks the model's own invariants and action properties, and every edge "
                "(state, call, arguments -> result, successor) is replayed on a real state.Tracker with every return value and the full projection compared; "
                "long random behaviours (-simulate) and Go-generated histories over a larger universe are validated in both directions. Exhaustive for the "
                "stated universe, sampled beyond.",
        "note": MC_NOTE,
    },
    "C14": {
        "engine": "Tracker.tla", "level": "model_checking", "design_ref": "7 (C14)",
        "technique": "snapshot scribbling during TLC edge replay; linearizability of recorded concurrent histories decided by TLC (silent Lin step in TrackerTrace.tla); go -race as supplement",
        "text": "Values are immutable in the model, so the model defines snapshot semantics: every returned object is scribbled over and re-read while the "
                "edge replay continues. Concurrent histories of 2-16 callers are recorded in real-time order and TLC searches for a linearization that "
                "explains every result. Data-race freedom proper is outside TLA+ and is delegated to the race detector on the same driver.",
        "note": MC_NOTE + " Real schedules are sampled, not enumerated.",
    },
}

NOT_APPLICABLE = {}
