"""The table behind MANIFEST.json (bin/mkmanifest)."""
HOOK_COMMITS = ["6d53df4", "d824a97", "a25974c"]

MC_NOTE = ("Trusted: TLC and its fingerprinting, the Go toolchain, the projection functions of the harness. The exhaustive results hold for the "
           "small constants of the cfg files named in the evidence; beyond them the evidence is the replayed/validated executions only.")

CHECKS = {
    "C01": {
        "engine": "IrcLine.tla", "level": "model_checking", "design_ref": "7 (C01)",
        "technique": "TLA+ grammar-as-components spec (Render/Expected); TLC enumerates the bounded component product, every message replayed on ParseLine and over a real connection; TLC trace validation of randomly drawn messages",
        "text": "IrcLine.tla defines what a conforming parser must deliver for every well-formed message. TLC enumerates the full product of small component alphabets "
                "(tags incl. all five escapes, sources, verbs, middles, trailing incl. CTCP forms, spacing) and every message is replayed through ParseLine, the accessors and a "
                "real connection in random read segmentations; messages drawn by the driver from large alphabets are validated by TLC per record. Bounded-exhaustive plus sampled; "
                "TLC proves nothing beyond the alphabets.",
        "note": MC_NOTE,
    },
    "C02": {
        "engine": "IrcLine.tla", "level": "exploration", "design_ref": "7 (C02), 8",
        "technique": "bounded-exhaustive byte-string sweep over the special alphabet declared with the IrcLine spec, then child-process connection sessions with markers (survival + in-order processing)",
        "text": "Every string up to length L over the special alphabet and every prefix x verb-word x suffix string goes through ParseLine and Text/Target/Public under recover; every "
                "panic class, every built-in verb x parameter shape x source, and random soups are then sent through real connections in child processes (tracking on/off), each "
                "probe followed by a marker that must be dispatched in order. The enumeration is executed by the Go driver; TLC contributes the oracle only, which is why the level is exploration.",
        "note": "Trusted: the Go toolchain and the harness. Inputs beyond the bounded alphabet/length are only sampled.",
    },
    "C04": {
        "engine": "Dispatch.tla", "level": "model_checking", "design_ref": "7 (C04)",
        "technique": "TLA+ model of registrations and the three dispatch phases; TLC closure, every state-graph edge (register/remove/event incl. in-handler removal, registration, panic) replayed on a real client over a connection; -simulate for long histories",
        "text": "Dispatch.tla fixes, for every history of Handle/HandleBG/internal handle/Remove/event over names differing in case, which registrations an event must invoke "
                "(exact sets for the internal and foreground phases, must/may for the background set where the property leaves a race open). TLC enumerates all histories of the "
                "bounded universe to closure and each edge is replayed on a real client: invocation multisets per event and recovery calls are compared.",
        "note": MC_NOTE,
    },
    "C06": {
        "engine": "Conn.tla", "level": "model_checking", "design_ref": "7 (C06), 3.3",
        "technique": "TLA+ model of the connection goroutines/queues/mutex/wait group/context over generations; TLC exhaustive safety+liveness per cause family; defect-constant variants must fail; scenario families replayed on the real client",
        "text": "Conn.tla is model-checked exhaustively (all interleavings of recv/send/runLoop/watcher/ping/closers for queue capacity 1, few lines) for: at most one DISCONNECTED and "
                "exactly one REGISTER per generation, Connected() false when DISCONNECTED starts, refused Connect harmless. The same scenario space (cause x coincidence x backlog x "
                "configuration bits) is run on the real client at the real queue capacity with event counters and Connected() samples taken inside handlers.",
        "note": MC_NOTE + " Binding: scenario replay with observable outputs compared, plus trace validation of the recorded hook events against ConnTrace.tla (a rejection there is DRIFT unless AtMostOneDisc / OwnClose fail on the recorded events).",
    },
    "C07": {
        "engine": "Conn.tla", "level": "model_checking", "design_ref": "7 (C07), 3.3",
        "technique": "TLC liveness (Close returns, ended generation gets DISCONNECTED, no goroutine left) under weak fairness + ownership/freshness invariants; defect variants (D4-D7) must fail; backlog/cause/reconnect scenario families at real capacity with deadline + goroutine dump",
        "text": "Liveness of teardown and freshness of reconnection are proved by TLC on Conn.tla for small constants (and shown to fail for each historical defect switched back on). "
                "The scenario families (inbound/outbound backlog 0..700 lines in units of the real capacity, handler idle/running/blocked in a send, every cause, reconnect from the "
                "DISCONNECTED handler or another goroutine, up to 12 cycles) are run on the real client: Close must return and DISCONNECTED arrive within the deadline, no internal "
                "goroutine may remain, the next connection must register, stay up and have a reset tracker.",
        "note": MC_NOTE + " Bounded time is judged against a 5 s deadline (25 s with flood control) plus a goroutine dump.",
    },
    "C08": {
        "engine": "Commands.tla", "level": "model_checking", "design_ref": "7 (C08)",
        "technique": "TLA+ framing predicate WireOK + exact Encode; TLC enumerates the call universe (methods x poisoned positions x payloads x SplitLen), calls executed on a connected client, server-side bytes per call validated by TLC (trace validation); random byte strings added by the driver",
        "text": "Commands.tla states what any call may put on the wire: CRLF-terminated lines without CR/LF inside, each starting with the method's verb. TLC enumerates every "
                "method x argument position x payload (CR, LF, CRLF, injected commands, control bytes, 600 bytes) and the driver executes each call on a real connection, delimiting "
                "the call's bytes with a random-token marker; TLC evaluates WireOK (verdict) and the exact encoding (drift only) on every record.",
        "note": MC_NOTE,
    },
    "C09": {
        "engine": "Conn.tla", "level": "model_checking", "design_ref": "7 (C09)",
        "technique": "TLC exhaustive on the out-queue configs of Conn.tla (senders x pacing: WireOrdered, AllWritten); wire transcripts of 1-64 concurrent real senders (user goroutines and handlers) under fast/slow/bursty/stalled servers validated by TLC against the same predicates (OutTrace.tla)",
        "text": "Conn.tla's out configs prove, for all interleavings of 2 senders x 2-3 lines through a queue of capacity 1-2 and one send goroutine, that each sender's lines reach the "
                "wire in issue order and, at quiescence with the connection up, exactly once. The recorded sessions restate the same predicates over what the fake server received.",
        "note": MC_NOTE + " Flood control off; lines free of CR/LF.",
    },
    "C10": {
        "engine": "Flood.tla", "level": "model_checking", "design_ref": "7 (C10)",
        "technique": "TLA+ penalty rule over integer ticks; TLC proves non-negativity, boundedness, held-iff-over and the window bound for all short histories (TLAPS proves the two bounds for histories of any length); closure of penalty values with every edge replayed on the real rateLimit; timed end-to-end sessions validated by TLC",
        "text": "Flood.tla states the rule (charge 2 s + n/120 s, real-time decay floored at zero, held for its own charge iff the penalty exceeds 10 s). TLC checks the window bound of "
                "the property on every history of up to 5 sends, enumerates the closure of reachable penalty values (2.7 k) and each of the 65 k (penalty, gap, length) edges is replayed "
                "on the real rateLimit through the verif hooks. Timed sessions over a real connection (protection on, off) are recorded with microsecond timestamps and validated.",
        "note": MC_NOTE + " Real-time behaviour is sampled; timing comparisons are one-sided or carry measured slack.",
    },
    "C11": {
        "engine": "Commands.tla", "level": "model_checking", "design_ref": "7 (C11)",
        "technique": "TLA+ predicate SplitOK evaluated by TLC on pieces recovered from the wire for every splitting method (enumerated + random texts incl. bytes >= 0x80, all SplitLen classes) and on a bounded-exhaustive small-text sweep of splitMessage",
        "text": "SplitOK(text, SplitLen, pieces) is the property itself. Pieces are recovered from the wire lines of Privmsg/Privmsgln/Privmsgf/Notice/Ctcp/CtcpReply/Action calls and "
                "checked by TLC; all texts of length 14..15 (17 thorough) over {a, space, '.'} for SplitLen 13/14 go through splitMessage with every suspicious result decided by TLC.",
        "note": MC_NOTE + " The small-text sweep uses a transliterated SplitOK as pre-filter; only its failures and a sample of passes reach TLC.",
    },
    "C03": {
        "engine": "Phases.tla", "level": "model_checking", "design_ref": "7 (C03)",
        "technique": "TLA+ model of the event loop phases (internal, background spawn, foreground, CONNECTED inside 001, disconnect at any moment, handler outcomes return/panic/block); TLC exhaustive safety + liveness, three defect variants must fail; the same predicates evaluated by TLC on handler events recorded from the real client (trace validation)",
        "text": "Phases.tla proves, for all interleavings with up to 4 lines, 2 foreground and 2 background handlers and a disconnect at any moment, that foreground handlers of different lines never overlap, start in wire order, CONNECTED runs after 001 was applied and before later lines, DISCONNECTED only after every foreground invocation ended. PhasesTrace.tla evaluates exactly these predicates on enter/exit events recorded inside real handlers over randomly segmented streams.",
        "note": MC_NOTE + " The recorded executions sample real schedules (GOMAXPROCS 1..16, lingering handlers, a delayed internal phase); they are not enumerated.",
    },
    "C05": {
        "engine": "Phases.tla", "level": "model_checking", "design_ref": "7 (C05)",
        "technique": "TLA+ model of the event loop phases (internal, background spawn, foreground, CONNECTED inside 001, disconnect at any moment, handler outcomes return/panic/block); TLC exhaustive safety + liveness, three defect variants must fail; the same predicates evaluated by TLC on handler events recorded from the real client (trace validation)",
        "text": "Every test line carries a monotone tracker witness (false until the line has been applied, true ever after). Inside every user foreground and background handler the witness of the handler's own line and of the next line is sampled; TLC checks AppliedBeforeHandlers (fg: exactly line k, bg: at least line k) on every recorded event, with the internal phase delayed by a hook so that a too-early handler is caught deterministically. The design-level model proves the same predicate and fails when the background dispatch is spawned before the internal phase.",
        "note": MC_NOTE + " The recorded executions sample real schedules (GOMAXPROCS 1..16, lingering handlers, a delayed internal phase); they are not enumerated.",
    },
    "C15": {
        "engine": "Dispatch.tla", "level": "model_checking", "design_ref": "7 (C15)",
        "technique": "storage rule of Dispatch.tla (private argument array and tag map per invocation, equal to the parsed event) evaluated by TLC on records taken inside real handlers of all three sets (trace validation); handlers scribble over everything",
        "text": "Schedule-independent detection: every invocation logs the address of its argument array and of its tag map plus the content on entry, then overwrites all of it; "
                "TLC checks pairwise distinct identities and equality with the parsed event for every dispatched line (0..15 arguments, no tags, empty tag sections, several tags).",
        "note": MC_NOTE + " No exhaustive model run of its own: the design-level rule is a one-step predicate; the states counted are those of the trace validation.",
    },
    "C16": {
        "engine": "Phases.tla", "level": "model_checking", "design_ref": "7 (C16)",
        "technique": "TLA+ model of the event loop phases (internal, background spawn, foreground, CONNECTED inside 001, disconnect at any moment, handler outcomes return/panic/block); TLC exhaustive safety + liveness, three defect variants must fail; the same predicates evaluated by TLC on handler events recorded from the real client (trace validation)",
        "text": "Handlers of every kind (user foreground, user background, built-in via a bare PING) panic or block for ever at random; TLC checks on the recorded events that every panic reached the recovery function, that every foreground handler still ran exactly once for every later line, and the design model proves delivery of all lines (liveness) with blocked background handlers. A dying client process is a violation.",
        "note": MC_NOTE + " The recorded executions sample real schedules (GOMAXPROCS 1..16, lingering handlers, a delayed internal phase); they are not enumerated.",
    },
    "C13": {
        "engine": "Network.tla", "level": "model_checking", "design_ref": "7 (C13)",
        "technique": "TLA+ model IRC network (ground truth + what the protocol has revealed) generating conformant server events; TLC closure over a small universe and -simulate over a larger one; every edge replayed on a real client (lines sent, answers expected, full tracker projection / own nick compared); arbitrary-line soups validated by TLC",
        "text": "Network.tla keeps the truth (members with true privileges, topics, key, limit, user@host) and, next to it, what NAMES / MODE / 324 / 332 / TOPIC / WHO / JOIN prefixes have revealed; its View is what a conforming tracker must hold. Every event edge (own join/part/kick, other users joining, parting, being kicked, quitting, renaming, privilege, key and limit changes incl. two argument-taking modes in one line, topic changes, 324 and WHO replies) of the explored graph is replayed on a real tracked client and the complete tracker projection is compared. The second sentence of the property is checked by TLC (RobustTrace.tla) on the tracker projection after each of 250 arbitrary lines in sequences and random soups.",
        "note": MC_NOTE + " The handlers are not modelled: the real client plays their part in every replayed edge, the model network is the oracle.",
    },
    "C17": {
        "engine": "Network.tla", "level": "model_checking", "design_ref": "7 (C17)",
        "technique": "TLA+ model IRC network (ground truth + what the protocol has revealed) generating conformant server events; TLC closure over a small universe and -simulate over a larger one; every edge replayed on a real client (lines sent, answers expected, full tracker projection / own nick compared); arbitrary-line soups validated by TLC",
        "text": "The same model network drives the nick life-cycle: 433 collisions before the welcome (answered by NICK NewNick(refused), NewNick transcribed in TLA+), 001 with the same, another or a case-variant nick, client-requested changes confirmed or refused, server-forced changes, other users renaming to and from look-alike nicks. After every replayed edge Me().Nick must equal the server's nick for the client and Me()/Config().Me must be non-nil, with and without state tracking; the default generator is swept over all 256 last bytes and validated by TLC.",
        "note": MC_NOTE + " The handlers are not modelled: the real client plays their part in every replayed edge, the model network is the oracle.",
    },
    "C18": {
        "engine": "Registration.tla", "level": "model_checking", "design_ref": "7 (C18)",
        "technique": "TLA+ functions DialAddr / Burst / Pong over configuration records; TLC enumerates the configuration product, each configuration run on a real client (in-memory TLS for SSL), recorded dial address, bursts of two successive connects, PONG replies and client PING counts validated by TLC (trace validation)",
        "text": "Registration.tla defines the address to dial (port added only when none was given, 6697 with SSL), the registration burst in order, the PONG for a token and when the client "
                "pings. TLC enumerates password x negotiation x SASL x SSL x server forms (hostname, IPv4, bracketed IPv6, with and without port) x PingFreq; every configuration is "
                "run twice in a row (connect, close, connect) and seven PING tokens (spaces, colons, empty-but-present, 400 bytes) are answered; TLC checks Conforms on every session.",
        "note": MC_NOTE,
    },
    "C19": {
        "engine": "Caps.tla", "level": "model_checking", "design_ref": "7 (C19)",
        "technique": "TLA+ model of CAP LS/REQ/ACK/NAK/END and SASL PLAIN/EXTERNAL with outcomes 903/904/908; TLC closure over all wanted/advertised subsets and reply scripts, two action properties proved on the model, every edge replayed on a real client; long capability lists force request splitting",
        "text": "Caps.tla says, for every configuration (wanted subset, SASL mechanism) and every server reply, what a conforming client writes and what HasCapability / SupportsCapability "
                "answer afterwards; TLC proves on the model that only wanted-and-advertised capabilities are ever requested and that every way out of the negotiation ends with CAP END, "
                "and each edge is replayed over a real connection.",
        "note": MC_NOTE,
    },
    "C20": {
        "engine": "LogTrace.tla", "level": "model_checking", "design_ref": "7 (C20), 8",
        "technique": "capturing logger over fault/session families (incl. the write of the PASS line itself failing); TLC evaluates the no-leak invariant on every captured record (trace validation)",
        "text": "Every record handed to an installed logging.Logger (all four levels) is captured over passwords x session kinds (plain, negotiation, tracking, ConnectTo, dial failure, "
                "refused connect, EOF after the burst, the n-th socket write failing for n = 1..4) and TLC checks that no record contains the password and that an outgoing PASS line is "
                "shown only masked. Thin use of the technique: the model contributes the invariant, the search is the driver's.",
        "note": "Trusted: TLC string operators, the harness. Passwords that occur in the password-free baseline of a session are skipped for that session.",
    },
    "C12": {
        "engine": "Tracker.tla", "level": "model_checking", "design_ref": "7 (C12), 4.4",
        "technique": "TLA+ relational model; TLC closure of reachable states; every state-graph edge replayed on the real tracker + TLC trace validation of recorded random histories",
        "text": "TLC computes the closure of Tracker.tla over a small name universe, checks the model's own invariants and action properties, and every edge "
                "(state, call, arguments -> result, successor) is replayed on a real state.Tracker with every return value and the full projection compared; "
                "long random behaviours (-simulate) and Go-generated histories over a larger universe are validated in both directions. Exhaustive for the "
                "stated universe, sampled beyond.",
        "note": MC_NOTE,
    },
    "C14": {
        "engine": "Tracker.tla", "level": "model_checking", "design_ref": "7 (C14)",
        "technique": "snapshot scribbling during TLC edge replay; linearizability of recorded concurrent histories decided by TLC (silent Lin step in TrackerTrace.tla); go -race as supplement",
        "text": "Values are immutable in the model, so the model defines snapshot semantics: every returned object is scribbled over and re-read while the "
                "edge replay continues. Concurrent histories of 2-16 callers are recorded in real-time order and TLC searches for a linearization that "
                "explains every result. Data-race freedom proper is outside TLA+ and is delegated to the race detector on the same driver.",
        "note": MC_NOTE + " Real schedules are sampled, not enumerated.",
    },
}

NOT_APPLICABLE = {}
