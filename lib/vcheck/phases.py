"""Shared by C03, C05, C16: spec/Phases.tla is model-checked exhaustively (all interleavings of the loop phases,
background handlers, handler outcomes, a disconnect at any moment), its three defect variants must each violate
the expected predicate, and handler events recorded from the real client (witness sessions, lingering /
panicking / blocking handlers, delayed internal phase, random segmentation, disconnects in mid-stream,
GOMAXPROCS 1..16) are validated by TLC against the same predicates (PhasesTrace.tla)."""
import os, re, subprocess
from . import common

DEFECTS = {"MCPhases_defect_bgbeforeint.cfg": ("C05", "AppliedBeforeHandlers"), "MCPhases_defect_leavesearly.cfg": ("C03", "DiscAfterFg"),
           "MCPhases_defect_norecover.cfg": ("C16", "PanicsRecovered")}


def run_phases(ctx, pid, what):
    cfgs = ["MCPhases_quick.cfg"] + ([] if ctx.quick() else ["MCPhases_thorough.cfg", "MCPhases_thorough2.cfg"])
    for cfg, r in ctx.tlc_many("Phases.tla", cfgs, what="Phases.tla exhaustive: safety predicates + AllDelivered under weak fairness", timeout=3600).items():
        if not r.ok:
            raise common.Inconclusive("TLC did not accept the design on %s: %s\n%s" % (cfg, r.violated(), "\n".join(r.out.splitlines()[-40:])))
    sens = {}
    for cfg, r in ctx.tlc_many("Phases.tla", list(DEFECTS), what="defect variant: TLC must find the violation", timeout=600, count=False).items():
        v = r.violated()
        if DEFECTS[cfg][1] not in " ".join(v):
            raise common.Inconclusive("vacuous model: defect variant %s does not violate %s (got %s)" % (cfg, DEFECTS[cfg][1], v))
        sens[cfg] = v
    tot = {"C03": 0, "C05": 0, "C16": 0, "HARNESS": 0}
    examples = {}
    sessions = events = lines = 0
    n, ln = (30, 60) if ctx.quick() else (400, 150)
    procs = [1, 4, 16] if ctx.quick() else [1, 2, 4, 8, 16]
    traces = []
    failing = None
    for gi, gmp in enumerate(procs):
        d = ctx.subdir("phases-p%d" % gmp)
        tr = os.path.join(d, "trace.ndjson")
        try:
            rc, out = ctx.run_drv(["phases", "-n", str(n), "-lines", str(ln), "-seed", str(ctx.seed * 100 + gi), "-out", tr], env={"GOMAXPROCS": str(gmp)}, timeout=3600)
        except subprocess.TimeoutExpired:
            raise common.Inconclusive("phases driver timed out")
        s = ctx.summary_line(out)
        if rc != 0 or s is None:
            if "panic:" in out or "fatal error" in out:
                i = out.find("panic:")
                rp = ctx.save_replay({"output": out[max(0, i):][:4000]}, "phases-process-died.json")
                # a dying client process is C16's (and C02's) business
                if pid == "C16":
                    ctx.violation("phases/process-died", "the client process died while handlers misbehaved: " + out[max(0, i):][:300].replace("\n", " "), rp)
                    continue
                raise common.Inconclusive("the driver process died (see C16): " + out[max(0, i):][:300])
            raise common.Inconclusive("phases driver failed (rc=%s): %s" % (rc, out[-1500:]))
        sessions += s["sessions"]; events += s["events"]; lines += s["lines"]
        ok, msg, r = ctx.validate_trace("PhasesTrace.tla", "PhasesTrace.cfg", tr, what="handler events validated against Phases' predicates (GOMAXPROCS=%d)" % gmp)
        m = re.search(r'"VERDICT",\s*"C03",\s*(\d+),\s*"C05",\s*(\d+),\s*"C16",\s*(\d+),\s*"HARNESS",\s*(\d+)', r.out)
        if not m:
            raise common.Inconclusive("no verdict from trace validation:\n" + "\n".join(r.out.splitlines()[-30:]))
        for k, v in zip(("C03", "C05", "C16", "HARNESS"), m.groups()):
            tot[k] += int(v)
            if int(v) and k == pid and failing is None:
                failing = tr
        for mm in re.finditer(r'"NONCONFORMING",\s*"(C\d\d)[^"]*?([A-Za-z][^"]*)"', r.out):
            examples.setdefault(mm.group(1), mm.group(2))
        traces.append((tr, gmp))
    # an ill-formed trace (an exit event without its enter) alone decides nothing; next to recorded violations of the
    # property's own predicates it is their consequence (a handler that ran outside the event loop outlives its session)
    if tot["HARNESS"] and not tot[pid]:
        raise common.Inconclusive("the recorded trace is malformed (exit without enter): harness problem")
    if tot[pid]:
        rp = ctx.save_replay(failing or traces[-1][0], "phases-trace.ndjson")
        ctx.violation("phases/%s/%s" % (pid, examples.get(pid, "predicate")), "%d recorded handler events violate %s's predicates (%s)" % (tot[pid], pid, examples.get(pid, "")), rp)
    ctx.traces_validated = sessions
    ctx.samples = [{"ev": "enter", "kind": "fg", "h": "f1", "k": 7, "wk": True, "wnext": False}, {"sessions": sessions, "events": events}]
    ctx.assumptions += ["log order = real-time order (events appended under one mutex inside the handlers)",
                        "witnesses are monotone by construction (each user that joins has exactly one fate), so 'the tracker reflects line k' is a query that stays true",
                        "real schedules are sampled (GOMAXPROCS %s, lingering handlers, delayed internal phase), not enumerated" % procs]
    cov = {"evaluations": events, "distinct_nontrivial": lines,
           "rule": "one evaluation = one recorded handler event (enter/exit/recover/disc) checked by TLC against Phases' predicates; distinct = server lines dispatched (each with "
                   "2 foreground + 1 background handler, its own tracker witness, random outcome return/panic/block)",
           "sessions": sessions, "verdict_counts": tot, "defect_variants_detected_by_tlc": sens, "what": what}
    return common.finish(ctx, "model_checking", cov)


def replay(ctx, path):
    ok, msg, r = ctx.validate_trace("PhasesTrace.tla", "PhasesTrace.cfg", path)
    print(r.out[-3000:])
    return 0 if ok else 1
