"""C17 - the client always knows its own current nick."""
from . import common, netw, c13


def run(ctx):
    cfg = "MCNetwork_quick.cfg" if ctx.quick() else "MCNetwork_thorough.cfg"
    res = [("closure-tracking", netw.edge_run(ctx, cfg, "closure of the model network, replayed with state tracking")),
           # without state tracking channel events change nothing the client knows: the small universe is enough there
           ("closure-plain", netw.edge_run(ctx, "MCNetwork_quick.cfg", "closure of the (small) model network, replayed without state tracking", tracking=False))]
    ncfg = "MCNetwork_nicks.cfg" if ctx.quick() else "MCNetwork_nicks_t.cfg"
    res.append(("nicks-tracking", netw.edge_run(ctx, ncfg, "closure of the nick-centred universe (requested / refused / forced nicks that are prefixes and extensions of each other and of the own nick), state tracking")))
    res.append(("nicks-plain", netw.edge_run(ctx, ncfg, "closure of the nick-centred universe, no state tracking", tracking=False)))
    n, depth = (40, 60) if ctx.quick() else (600, 120)
    res.append(("sim-plain", netw.edge_run(ctx, "MCNetwork_sim.cfg", "random sessions, no state tracking", tracking=False,
                                           extra=["-simulate", "num=%d" % n, "-depth", str(depth), "-seed", str(ctx.seed)])))
    for _, s in res:
        netw.collect(ctx, s, "C17")
    sp, tr, out = netw.soup(ctx, 20, 20)
    if sp is not None:
        ok, msg, soup_s = sp
        if soup_s["bad_newnick"]:
            rp = ctx.save_replay(tr, "c17-newnick-trace.ndjson")
            ctx.violation("net/newnick", "the default nick generator does not yield a different nick of the same length differing only in the last byte: %d of the swept inputs, e.g. %s" % (soup_s["bad_newnick"], [e for e in soup_s["examples"] if "newnick" in e][:2]), rp)
    ev = {}
    for _, s in res:
        for k, v in s["event_counts"].items():
            ev[k] = ev.get(k, 0) + v
    missing = [e for e in ("collide", "welcome", "clientnick", "nickconfirm", "nickrefuse", "nickforce", "othernick", "hiddennick") if not ev.get(e)]
    if missing:
        raise common.Inconclusive("vacuous: events never replayed: %s" % missing)
    ctx.samples = [{"events": ["collide", "collide", "welcome(Me)", "clientnick(mx)", "nickrefuse", "nickconfirm"]}] + [x for _, s in res for x in (s.get("samples") or [])][:1]
    ctx.traces_validated = sum(s["edges"] for _, s in res)
    ctx.assumptions += ["custom nick generators are not exercised (the default one is; the 433 answer is compared with Network!NewNick, which transcribes it)",
                        "a server does not impose the very nick it is about to refuse (excluded in Network!NickForce)"]
    cov = {"evaluations": sum(s["edges"] for _, s in res), "distinct_nontrivial": sum(ev.get(e, 0) for e in ("collide", "welcome", "clientnick", "nickconfirm", "nickrefuse", "nickforce", "othernick")),
           "rule": "one evaluation = one server event of the model network replayed on a real client (with and without state tracking): Me().Nick, Config().Me and the NICK lines the "
                   "client writes are compared; non-trivial = events that concern a nick",
           "exhaustive": True, "event_counts": ev,
           "per_config": {n: {k: s[k] for k in ("edges", "states", "sessions", "failures")} for n, s in res}}
    return common.finish(ctx, "model_checking", cov)


def replay(ctx, path):
    return c13.replay(ctx, path)
