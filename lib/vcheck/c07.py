"""C07 - disconnect always completes, leaks nothing, and the client can reconnect."""
from . import conn


def run(ctx):
    return conn.run_lifecycle(ctx, {"C07", "C18"}, "Close returns and DISCONNECTED is delivered within the deadline for every backlog/cause; no library goroutine remains; the next connection registers, stays up, tracker reset")


def replay(ctx, path):
    return conn.replay(ctx, path)
