"""C16 - see lib/vcheck/phases.py and spec/Phases.tla."""
from . import phases


def run(ctx):
    return phases.run_phases(ctx, "C16", "every panic reaches the recovery function, siblings and later events are delivered, a blocked background handler delays nothing")


def replay(ctx, path):
    return phases.replay(ctx, path)
