"""C11 - long messages are split losslessly into bounded pieces."""
from . import common, cmds


def run(ctx):
    d = ctx.subdir("cmd-split")
    import os
    tr = os.path.join(d, "trace.ndjson")
    n, maxtext, sweep = (700, 1500, 15) if ctx.quick() else (20000, 6000, 17)
    rc, out, tl = ctx.pipe_tlc_to_drv("MCCommands.tla", "MCCommands_quick.cfg" if ctx.quick() else "MCCommands_thorough.cfg",
                                      ["cmd-calls", "-out", tr, "-seed", str(ctx.seed), "-random", str(n), "-mode", "split", "-maxtext", str(maxtext), "-sweep", str(sweep)],
                                      workers=None, what="call universe of MCCommands.tla (splitting methods x payloads x SplitLen)")
    s = ctx.summary_line(out)
    if rc != 0 or s is None or not tl.ok:
        raise common.Inconclusive("command driver failed (rc=%s): %s" % (rc, out[-2000:]))
    tot, ex = cmds.verdicts(ctx, tr, "C11OK (SplitOK on the pieces recovered from the wire / returned by splitMessage) per record")
    if tot["C11"]:
        rp = ctx.save_replay(tr, "c11-trace.ndjson")
        ctx.violation("cmd/split-not-ok", "%d recorded splits violate SplitOK (piece too long, missing marker, empty piece or lossy), e.g. %s" % (tot["C11"], ex["C11"][:1]), rp)
    if tot["ENCODE"]:
        ctx.drift.append("%d calls are not encoded exactly as Commands!Encode1 / PieceLine say, e.g. %s" % (tot["ENCODE"], ex["ENCODE"][:1]))
    sw = s.get("sweep") or {}
    split_calls = sum(v for k, v in s["per_method"].items() if k in ("Privmsg", "Privmsgln", "Privmsgf", "Notice", "Ctcp", "CtcpReply", "Action"))
    if split_calls < 100 or not sw.get("texts"):
        raise common.Inconclusive("vacuous: too few splitting calls / no sweep")
    ctx.traces_validated = s["calls"] + sw.get("logged", 0)
    ctx.samples = (s["samples"] or [])[:2] + [{"sweep": sw}]
    ctx.assumptions += ["texts are free of CR/LF (the claim); bytes >= 0x80 are included (multi-byte characters need not stay intact, lengths must hold)",
                        "the exhaustive small-text sweep is executed by the driver with a transliterated SplitOK as pre-filter: every pre-filter failure and a 1/20000 sample of the passes are decided by TLC"]
    cov = {"evaluations": split_calls + sw.get("texts", 0), "distinct_nontrivial": split_calls,
           "rule": "one evaluation = one call of a splitting method (text recovered from the wire pieces) or one splitMessage call of the small-text sweep (all texts of length 14..%d over "
                   "{a, space, '.'} x SplitLen {13, 14}); non-trivial = calls through the public methods (random texts up to %d bytes, all SplitLen classes)" % (sweep, maxtext),
           "sweep": sw, "per_method": s["per_method"], "verdict_counts": tot}
    return common.finish(ctx, "model_checking", cov)


def replay(ctx, path):
    tot, ex = cmds.verdicts(ctx, path, "replay")
    print(tot, ex)
    return 1 if tot["C11"] else 0
