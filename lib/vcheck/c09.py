"""C09 - outgoing lines reach the server in order, once each."""
import os
from . import common, conn


def run(ctx):
    cfgs = conn.OUT_QUICK if ctx.quick() else conn.OUT_QUICK + conn.OUT_THOROUGH
    conn.model_check(ctx, cfgs)
    d = ctx.subdir("conn-out")
    tr = os.path.join(d, "trace.ndjson")
    rc, out = ctx.run_drv(["conn-out", "-tier", ctx.tier, "-seed", str(ctx.seed), "-out", tr], timeout=3600)
    s = ctx.summary_line(out)
    if rc != 0 or s is None:
        raise common.Inconclusive("sender driver failed (rc=%s): %s" % (rc, out[-2000:]))
    ok, msg, r = ctx.validate_trace("OutTrace.tla", "OutTrace.cfg", tr, what="wire transcripts of concurrent senders validated per session", timeout=3600)
    if not ok:
        rp = ctx.save_replay(tr, "c09-trace.ndjson")
        ctx.violation("out/wire-order", "a recorded session's wire transcript is not every sender's issue sequence, once each: " + msg[:700], rp)
    ctx.traces_validated = s["sessions"]
    ctx.samples = [s["sample"]]
    ctx.assumptions += ["flood control off; lines free of CR/LF; the connection stays up during a session (checked by a final PING/PONG)",
                        "server pacing fast / slow (60-byte allowances) / bursty / stalled-then-released; real schedules are sampled"]
    cov = {"evaluations": s["wire_lines"], "distinct_nontrivial": s["sessions"],
           "rule": "one evaluation = one line on the wire of a recorded session; distinct = sessions (number of user goroutines x handler senders x lines x server pacing)",
           "sessions": s["sessions"], "wire_lines": s["wire_lines"]}
    return common.finish(ctx, "model_checking", cov)


def replay(ctx, path):
    ok, msg, r = ctx.validate_trace("OutTrace.tla", "OutTrace.cfg", path)
    print("accepted" if ok else "REJECTED: " + msg)
    return 0 if ok else 1
