"""C18 - registration and keep-alive follow the protocol."""
import os, re
from . import common


def run(ctx):
    d = ctx.subdir("reg")
    tr = os.path.join(d, "trace.ndjson")
    cfg = "MCRegistration_quick.cfg" if ctx.quick() else "MCRegistration_thorough.cfg"
    rc, out, tl = ctx.pipe_tlc_to_drv("MCRegistration.tla", cfg, ["reg-cfgs", "-out", tr, "-window", "70" if ctx.quick() else "300"], workers=None,
                                      what="configuration product: password x negotiation x SASL x SSL x server forms (hostname, IPv4, bracketed IPv6; with and without port) x PingFreq")
    s = ctx.summary_line(out)
    if rc != 0 or s is None or not tl.ok:
        raise common.Inconclusive("registration driver failed (rc=%s): %s" % (rc, out[-2000:]))
    ok, msg, r = ctx.validate_trace("RegistrationTrace.tla", "RegistrationTrace.cfg", tr, what="dial address, burst (twice), PONG replies, client PINGs per configuration")
    if not ok:
        rp = ctx.save_replay(tr, "c18-trace.ndjson")
        ex = re.findall(r'server \|-> ("[^"]*")', r.out)
        ctx.violation("reg/nonconforming", "sessions that do not follow Registration.tla (dial address, registration burst, PONG or PING): " + msg[:400] + " servers: %s" % sorted(set(ex))[:6], rp)
    m = re.search(r'"GROWTH",\s*(\d+)', r.out)
    if m and int(m.group(1)):
        ctx.drift.append("%s sessions answer CTCP VERSION / PING differently from Registration!CtcpAnswer (no listed property claims these answers)" % m.group(1))
    if s["sessions"] < 100 or s["tls_sessions"] == 0:
        raise common.Inconclusive("vacuous: %s" % s)
    ctx.traces_validated = s["sessions"]
    ctx.samples = [s["sample"]]
    ctx.assumptions += ["client PINGs are counted over a window of several periods: at least one when PingFreq > 0, none when 0 (both one-sided, so timing cannot raise an alarm)",
                        "TLS sessions use an in-memory TLS server with a key generated at run time; certificate verification is switched off in the client's SSLConfig"]
    cov = {"evaluations": s["sessions"] * (2 + s["tokens"]), "distinct_nontrivial": s["sessions"],
           "rule": "one evaluation = one observation (dial address + burst, burst after reconnect, one PING token) of a session; distinct = configurations of the product enumerated by TLC",
           "exhaustive": True, "sessions": s["sessions"], "tls_sessions": s["tls_sessions"], "ping_tokens": s["tokens"]}
    return common.finish(ctx, "model_checking", cov)


def replay(ctx, path):
    ok, msg, r = ctx.validate_trace("RegistrationTrace.tla", "RegistrationTrace.cfg", path)
    print("accepted" if ok else "REJECTED: " + msg)
    return 0 if ok else 1
