"""C19 - capability negotiation asks only for what both sides support and always ends."""
import json, os
from . import common


def run(ctx):
    cfg = "MCCaps_quick.cfg" if ctx.quick() else "MCCaps_thorough.cfg"
    out_dir = ctx.subdir("caps")
    rc, out, tl = ctx.pipe_tlc_to_drv("MCCaps.tla", cfg, ["caps-edges", "-out", out_dir, "-long", "30" if ctx.quick() else "400", "-seed", str(ctx.seed)], workers=1,
                                      what="closure of Caps.tla: all wanted sets x SASL none/PLAIN/EXTERNAL x LS / ACK(+-cap) / NAK / AUTHENTICATE + / 903 / 904 / 908 / reconnect at any point; every edge replayed")
    s = ctx.summary_line(out)
    if s is None or rc not in (0, 1):
        raise common.Inconclusive("caps driver died (rc=%s): %s" % (rc, out[-2000:]))
    if not tl.ok:
        raise common.Inconclusive("TLC reported a problem with Caps.tla:\n" + "\n".join(tl.out.splitlines()[-30:]))
    if s["failures"] == 0 and (s["edges"] == 0 or s["edges_with_unknown_source"]):
        raise common.Inconclusive("edge stream incomplete")
    for f in s.get("failure_files") or []:
        j = json.load(open(f))
        rp = ctx.save_replay(f, os.path.basename(f))
        ev = (j.get("edge") or {}).get("o", {}).get("ev", "long-list")
        ctx.violation("caps/" + ev, j["detail"][:600], rp)
    ev = s["event_counts"]
    if s["failures"] == 0 and not all(ev.get(k) for k in ("ls", "ack", "nak", "plus", "outcome", "reconnect", "connectagain", "challenge")):
        raise common.Inconclusive("vacuous: an event kind was never replayed: %s" % ev)
    ctx.samples = s["samples"]
    ctx.traces_validated = s["edges"]
    ctx.assumptions += ["single-line CAP LS (the client never asks for CAP 302); several CAP END in a row count as one",
                        "the SASL payload is compared with base64 computed by the harness from the configured credentials (PLAIN: authzid NUL user NUL password; EXTERNAL: '+' for an empty identity)"]
    cov = {"evaluations": s["edges"] + s["long_lists_ok"], "distinct_nontrivial": s["states"],
           "rule": "one evaluation = one edge of TLC's state graph of Caps.tla replayed on a real client over a connection (wire lines, HasCapability, SupportsCapability compared) or one "
                   "long-list session (40-120 long capability names forcing CAP REQ to be split: union and multiplicity compared); distinct = model states",
           "exhaustive": True, "event_counts": ev, "long_lists": s["long_lists_ok"], "sessions": s["sessions"]}
    return common.finish(ctx, "model_checking", cov)


def replay(ctx, path):
    rc, out = ctx.run_drv(["caps-edges", "-replay", path])
    print(out)
    return rc
