"""C02 - no input from the server can crash the client or stop it processing.
The input universe (alphabet of special bytes, verb words, parameter shapes) is the one of
IrcLine.tla / DESIGN 7; the exhaustive sweep of Sigma^<=L is executed by the Go driver
(function level under recover), every panic class and all handler probes / random soups are then
sent through real connections in child processes, each probe followed by a well-formed marker:
the process must survive and every marker must be dispatched, in order.  The recorded hook
traces of those sessions are validated against the receive pipeline of Conn.tla by C03/C06's
trace validation (same sessions, see lib/vcheck/conn.py) once built."""
import json, os
from . import common


def first_line(s):
    s = s.strip().splitlines()
    return s[0][:120] if s else ""


def run(ctx):
    if ctx.quick():
        args = ["-len", "5", "-suffix", "3", "-soups", "150", "-souplen", "20"]
    else:
        args = ["-len", "7", "-suffix", "4", "-soups", "2000", "-souplen", "50"]
    rc, out = ctx.run_drv(["irc-sweep", "-seed", str(ctx.seed)] + args, timeout=7200)
    s = ctx.summary_line(out)
    if s is None or rc not in (0, 1):
        raise common.Inconclusive("sweep did not complete (rc=%s): %s" % (rc, (s or {}).get("incomplete") or out[-3000:]))
    seen = set()
    for i, f in enumerate(s["findings"] or []):
        if f["kind"] in ("accessor-panic", "process-died"):
            sig = "c02/%s/%s/%s" % (f["kind"], f["where"], first_line(f["detail"]).replace("panic: ", ""))
        else:
            sig = "c02/%s" % f["kind"]
        if sig in seen:
            continue
        seen.add(sig)
        rp = ctx.save_replay({"property": "C02", "raw": f["input"], "kind": f["kind"], "where": f["where"], "detail": f["detail"], "tracking": f["tracking"]},
                             "c02-finding-%02d.json" % i)
        ctx.violation(sig, "%s on input %r (tracking=%s): %s" % (f["kind"], f["input"], f["tracking"], first_line(f["detail"])), rp)
    if s["markers_dispatched"] == 0:
        raise common.Inconclusive("vacuous: no marker was dispatched")
    ctx.samples = s["samples"]
    ctx.assumptions += ["the exhaustive enumeration of byte strings is executed by the Go driver, not by TLC (10^5..10^7 strings); the alphabet and the parameter shapes are those declared in DESIGN.md 7 (C02)",
                        "a panic recovered by the configured Recover function is allowed (C16's subject)"]
    cov = {"evaluations": s["function_inputs"] + s["connection_probe_lines"],
           "distinct_nontrivial": s["function_inputs_parsed"],
           "rule": "every string of length <= L over {@ : space ! ; = \\ \\x01 # a 1} and every prefix x verb-word x suffix string through ParseLine/Text/Target/Public under recover; "
                   "non-trivial = the parser accepted the string (a Line was produced and its accessors were exercised); then every panic class, every built-in verb x "
                   "parameter shape x source, and random soups through real connections (tracking on and off) with a marker after each line",
           "exhaustive": True, "params": s["params"], "panic_classes": s["panic_classes"],
           "connection_sessions": s["connection_sessions"], "connection_probe_lines": s["connection_probe_lines"],
           "markers_dispatched": s["markers_dispatched"], "handler_panics_recovered": s["handler_panics_recovered"]}
    return common.finish(ctx, "exploration", cov)


def replay(ctx, path):
    rc, out = ctx.run_drv(["irc-one", "-file", path])
    print(out)
    return rc
