"""C10 - flood protection follows Hybrid's penalty rule."""
import json, os
from . import common


def run(ctx):
    # (1) the rule and its consequence (window bound) on the model, exhaustively for short histories
    r = ctx.tlc("MCFlood.tla", "MCFlood_window.cfg", what="all histories of <= 5 sends, lengths {0,60,510}, gaps {0, 1 tick, 1 s, 10 s, 60 s}: NeverNegative, Bounded, WindowBound, HeldIffOver", timeout=1800)
    # (1b) the lemma behind the window bound for histories of ANY length: TLAPS proof of an inductive invariant
    proof = tlaps(ctx)
    # (2) closure of the penalty values; every edge replayed on the real rateLimit
    out_dir = ctx.subdir("flood-edges")
    rc, out, tl = ctx.pipe_tlc_to_drv("MCFlood.tla", "MCFlood_edges.cfg", ["flood-edges", "-out", out_dir], workers=1,
                                      what="closure of the penalty values under lengths {0,1,60,510} x gaps {0, 1, 119, 240, 1210, 3000 ticks}; every edge replayed on rateLimit")
    s = ctx.summary_line(out)
    if s is None or rc not in (0, 1) or not tl.ok:
        raise common.Inconclusive("flood edge driver failed (rc=%s): %s" % (rc, out[-1500:]))
    for f in s.get("failure_files") or []:
        j = json.load(open(f))
        rp = ctx.save_replay(f, os.path.basename(f))
        ctx.violation("flood/ratelimit-step", "rateLimit(%d chars) with penalty %d ticks after %d idle ticks returned %d ns / left %d ns, the rule says %d ns / %d ns" % (
            j["edge"]["chars"], j["edge"]["before"], j["edge"]["elapsed"], j["returned_ns"], j["penalty_after_ns"], j["expected_ns"], j["expected_penalty_ns"]), rp)
    if s["edges"] == 0 or s["held_edges"] == 0 or s["held_edges"] == s["edges"]:
        raise common.Inconclusive("vacuous: the edges do not hit both sides of the threshold")
    # (3) timed end-to-end sessions validated by TLC
    d = ctx.subdir("flood-timed")
    tr = os.path.join(d, "trace.ndjson")
    rc2, out2 = ctx.run_drv(["flood-timed", "-tier", ctx.tier, "-out", tr], timeout=3600)
    t = ctx.summary_line(out2)
    if rc2 != 0 or t is None:
        raise common.Inconclusive("timed flood driver failed (rc=%s): %s" % (rc2, out2[-1500:]))
    ok, msg, r2 = ctx.validate_trace("FloodTrace.tla", "FloodTrace.cfg", tr, what="timed sessions: arithmetic of every step, held iff penalty > 10 s, window bound on write times, no delay with protection off")
    if not ok:
        rp = ctx.save_replay(tr, "c10-timed-trace.ndjson")
        ctx.violation("flood/timed-session", "a timed session does not follow the penalty rule: " + msg[:600], rp)
    if t["held_lines"] == 0:
        raise common.Inconclusive("vacuous: no line was held back in the timed sessions")
    ctx.traces_validated = s["edges"] + t["sessions"]
    ctx.samples = [s.get("sample"), t.get("sample")]
    ctx.assumptions += ["the window bound is read as: total charge of a run <= time between first and last write + 10 s + the charges of the first and the last line (TLC confirms it on the model; "
                        "a tighter reading is not implied by the rule)", "edge replay sets the penalty and the time of the last send through the verif hooks half a tick away from every "
                        "decision boundary; timed runs take real seconds, all comparisons are one-sided or carry the measured slack"]
    cov = {"evaluations": s["edges"] + t["lines"], "distinct_nontrivial": s["held_edges"],
           "rule": "one evaluation = one edge (penalty, idle gap, line length) of TLC's state graph of Flood.tla replayed on the real rateLimit (returned delay and new penalty compared) or "
                   "one line of a timed session; non-trivial = edges on which the line is held back",
           "exhaustive": True, "edges": s["edges"], "held_edges": s["held_edges"], "timed_sessions": t["sessions"], "timed_lines": t["lines"], "timed_held_lines": t["held_lines"],
           "tlaps": proof}
    return common.finish(ctx, "model_checking", cov)


def tlaps(ctx):
    """FloodProof.tla: Spec => [](NeverNegative /\\ Bounded) for unbounded histories.  A proof that does not go through
    is a problem of the specification (inconclusive), never a verdict about the code."""
    import subprocess, re, time
    d = ctx.spec_dir("tlaps")
    t0 = time.time()
    try:
        p = subprocess.run(["tlapm", "--threads", "8", "FloodProof.tla"], cwd=d, stdout=subprocess.PIPE, stderr=subprocess.STDOUT, timeout=600, universal_newlines=True)
    except (subprocess.TimeoutExpired, OSError) as e:
        raise common.Inconclusive("tlapm did not finish on FloodProof.tla: %s" % e)
    m = re.search(r"All (\d+) obligations? proved", p.stdout)
    if not m:
        raise common.Inconclusive("the TLAPS proof of Flood's penalty bounds does not go through:\n" + p.stdout[-1500:])
    return {"module": "FloodProof.tla", "theorem": "Spec => [](NeverNegative /\\ Bounded), any number of sends, lengths 0..510, any gaps", "obligations_proved": int(m.group(1)),
            "wall_s": round(time.time() - t0, 1)}


def replay(ctx, path):
    if path.endswith(".ndjson"):
        ok, msg, r = ctx.validate_trace("FloodTrace.tla", "FloodTrace.cfg", path)
        print("accepted" if ok else "REJECTED: " + msg)
        return 0 if ok else 1
    print(open(path).read())
    return 1
