"""C12 - the tracker behaves as a relational model.
TLC computes the reachable closure of spec/Tracker.tla over a small universe, proves the
model's own invariants/action properties, and emits every edge (operation, arguments,
result, successor state); the driver replays every edge on state.NewTracker and compares
every return value and the complete projection.  C14's snapshot checks ride on the same
replay (lib/vcheck/c14.py reports them)."""
import os
from . import common


def edge_run(ctx, cfg, what, extra=(), workers=1, timeout=3600, scribble=False):
    out_dir = ctx.subdir("trk-" + cfg.replace(".cfg", ""))
    rc, out, tl = ctx.pipe_tlc_to_drv("MCTracker.tla", cfg, ["trk-edges", "-out", out_dir, "-me", "a"] + ([] if scribble else ["-noscribble"]),
                                      workers=workers, extra=extra, timeout=timeout, what=what)
    s = ctx.summary_line(out)
    if s is None or rc not in (0, 1):
        raise common.Inconclusive("tracker edge driver died (rc=%s):\n%s" % (rc, out[-3000:]))
    if not extra and not tl.ok:
        raise common.Inconclusive("TLC reported a problem with the model itself on %s:\n%s" % (cfg, "\n".join(tl.out.splitlines()[-30:])))
    if s["failures"] == 0 and (s["edges"] == 0 or s["edges_with_unknown_source"]):
        raise common.Inconclusive("edge stream incomplete on %s: %s" % (cfg, {k: s[k] for k in ("edges", "edges_with_unknown_source")}))
    return s


def collect(ctx, s, want_prop, all_kinds=False):
    """turn driver failures into violations of want_prop ('C12' or 'C14')"""
    import json
    for f in s.get("failure_files") or []:
        try:
            j = json.load(open(f))
        except Exception:
            continue
        if j.get("property") != want_prop and not all_kinds:
            continue
        j["path"] = j.get("path") or []
        rp = ctx.save_replay(f, os.path.basename(f))
        ctx.violation("trk/" + j["kind"] + "/" + j["call"]["Op"], "%s on %s after %d-step history: %s" % (j["kind"], j["call"], len(j["path"]), j["detail"]), rp)


def runs(ctx):
    res = []
    res.append(("quick-closure", edge_run(ctx, "MCTracker_quick.cfg", "closure 3 names x 2 channels, 1 privilege flag; every edge replayed")))
    res.append(("attr", edge_run(ctx, "MCTracker_attr.cfg", "2 names x 1 channel, full attribute/mode alphabet; every edge replayed")))
    n, depth = (300, 60) if ctx.quick() else (3000, 200)
    res.append(("sim", edge_run(ctx, "MCTracker_sim.cfg", "random behaviours over 7 names x 5 channels",
                                extra=["-simulate", "num=%d" % n, "-depth", str(depth), "-seed", str(ctx.seed)])))
    if not ctx.quick():
        res.append(("thorough-closure", edge_run(ctx, "MCTracker_thorough.cfg", "closure 4 names (incl. empty) x 3 channel names (incl. empty)", timeout=7200)))
    return res


def history_run(ctx, name, n, threads, ops, big, race=False, what=""):
    """record call histories of real trackers and validate them with TLC against TrackerTrace.tla"""
    d = ctx.subdir("hist-" + name)
    tr = os.path.join(d, "trace.ndjson")
    args = ["trk-hist", "-n", str(n), "-threads", str(threads), "-ops", str(ops), "-seed", str(ctx.seed), "-out", tr]
    if big:
        args.append("-big")
    rc, out = ctx.run_drv(args, race=race)
    s = ctx.summary_line(out)
    if race and ("DATA RACE" in out):
        return {"race": out[:6000], "summary": s, "trace": tr}
    if rc != 0 or s is None:
        raise common.Inconclusive("history recorder died (rc=%s): %s" % (rc, out[-2000:]))
    # TLC cannot follow a behaviour of 65536 or more states (one state per event plus one per linearization point):
    # the histories are independent of each other, so the trace is cut at its "reset" events into chunks of at most
    # 12 000 events, validated side by side
    from concurrent.futures import ThreadPoolExecutor
    chunks, cur, n_ev = [], [], 0
    for l in open(tr):
        if '"reset"' in l and n_ev >= 12000:
            chunks.append(cur)
            cur, n_ev = [], 0
        cur.append(l)
        n_ev += 1
    if cur:
        chunks.append(cur)
    files = []
    for k, c in enumerate(chunks):
        pth = os.path.join(d, "chunk%03d.ndjson" % k)
        with open(pth, "w") as f:
            f.writelines(c)
        files.append(pth)
    with ThreadPoolExecutor(max_workers=4) as ex:
        outs = list(ex.map(lambda pth: ctx.validate_trace("TrackerTrace.tla", "TrackerTrace.cfg", pth, what=what or name), files))
    bad = [(pth, msg) for pth, (ok, msg, r) in zip(files, outs) if not ok]
    return {"accepted": not bad, "msg": bad[0][1] if bad else "", "summary": s, "trace": bad[0][0] if bad else tr,
            "tlc_states": sum(r.distinct for _, _, r in outs), "chunks": len(files)}


def run(ctx, prop="C12"):
    res = runs(ctx)
    n, ops = (300, 40) if ctx.quick() else (3000, 120)
    h = history_run(ctx, "seq-big", n, 1, ops, True, what="sequential random histories over 16 nicks x 9 channels, validated by TLC")
    if not h["accepted"]:
        rp = ctx.save_replay(h["trace"], "trk-seq-rejected.ndjson")
        ctx.violation("trk/trace-rejected/sequential", "a recorded sequential history of the real tracker is not a behaviour of Tracker.tla: " + h["msg"], rp)
    ctx.notes["sequential_histories"] = {k: h["summary"][k] for k in ("histories", "calls", "events")}
    ctx.notes["sequential_histories"]["accepted"] = h["accepted"]
    edges = sum(s["edges"] for _, s in res)
    changing = sum(s["state_changing_edges"] for _, s in res)
    ops = {}
    for _, s in res:
        for k, v in s["op_counts"].items():
            ops[k] = ops.get(k, 0) + v
        collect(ctx, s, prop)
    missing = [o for o in ["NewNick", "GetNick", "ReNick", "DelNick", "NickInfo", "NickModes", "NewChannel", "GetChannel",
                           "DelChannel", "Topic", "ChannelModes", "Me", "IsOn", "Associate", "Dissociate", "Wipe"] if not ops.get(o)]
    if missing:
        raise common.Inconclusive("vacuous: operations never exercised: %s" % missing)
    ctx.samples = [x for _, s in res for x in (s.get("samples") or [])][:4]
    ctx.traces_validated = edges + h["summary"]["histories"]
    ctx.assumptions += ["TLC's fingerprint set is collision-free", "the universe of names is the one of the cfg (see tlc_runs)",
                        "mode strings are those of MCTracker.tla; the two consumptions left unspecified by the property are not followed by argument-taking modes"]
    cov = {"evaluations": edges, "distinct_nontrivial": changing,
           "rule": "one evaluation = one edge (state, operation, arguments) of TLC's state graph of Tracker.tla replayed on a real tracker "
                   "driven to that state; non-trivial = the edge changes the model state (refused and read-only calls are replayed too but not counted)",
           "exhaustive": True, "op_counts": ops,
                      "per_config": {n: {k: s[k] for k in ("edges", "states", "state_changing_edges", "failures")} for n, s in res}}
    return common.finish(ctx, "model_checking", cov)


def replay(ctx, path):
    rc, out = ctx.run_drv(["trk-edges", "-replay", path])
    print(out)
    return rc
