"""Common machinery of /verif/bin/check: scratch space, TLC runner, driver build,
known-findings classification, evidence writer, exit codes.

Exit codes: 0 = property held on everything explored (possibly with KNOWN-FINDING /
DRIFT lines), 1 = VIOLATION (evidence from the real code), 2 = inconclusive (tool
failure, vacuous run, dead driver) - never a violation.
"""
import json, os, re, shutil, subprocess, sys, tempfile, time, atexit, hashlib

VERIF = os.path.dirname(os.path.dirname(os.path.dirname(os.path.abspath(__file__))))
SPEC = os.path.join(VERIF, "spec")
HARNESS = os.path.join(VERIF, "harness")
# evidence describes runs of /verif against /repo's working tree only: a run against another tree (VERIF_REPO, used by
# bin/seedmatrix for seeded changes) writes its record next to its scratch space, never into /verif/evidence
EVIDENCE = os.path.join(VERIF, "evidence") if os.path.abspath(os.environ.get("VERIF_REPO", "/repo")) == "/repo" \
    else os.path.join(os.environ.get("VERIF_SCRATCH") or "/tmp", "verif-evidence-other-tree")
REPLAYS = os.path.join(VERIF, "replays")
KNOWN = os.path.join(VERIF, "known_findings.jsonl")
NCPU = os.cpu_count() or 4

GOENV = {"GOFLAGS": "-mod=mod", "GOPROXY": "off", "GOSUMDB": "off", "GOTOOLCHAIN": "local"}


class Inconclusive(Exception):
    pass


def log(*a):
    print(*a, flush=True)


class TlcResult:
    def __init__(self, rc, out, wall):
        self.rc, self.out, self.wall = rc, out, wall
        m = re.findall(r"(\d[\d,]*) states generated, (\d[\d,]*) distinct states found", out)
        self.generated = int(m[-1][0].replace(",", "")) if m else 0
        self.distinct = int(m[-1][1].replace(",", "")) if m else 0
        d = re.findall(r"depth of the complete state graph search is (\d+)", out)
        self.depth = int(d[-1]) if d else 0
        self.errors = [l for l in out.splitlines() if l.startswith("Error:")]
        self.ok = rc == 0 and not self.errors and "Model checking completed. No error has been found." in out

    def violated(self):
        """names of violated invariants / properties according to TLC"""
        r = re.findall(r"Invariant (\S+) is violated", self.out)
        r += re.findall(r"Action property (\S+) is violated", self.out)
        t = re.findall(r"Temporal propert(?:y|ies) (.*?)(?:was|were) violated", self.out)
        r += ["temporal:" + x.strip() for x in t]
        return r


class Ctx:
    def __init__(self, pid, tier, seed):
        self.pid, self.tier, self.seed = pid, tier, seed
        self.repo = os.path.abspath(os.environ.get("VERIF_REPO", "/repo"))
        base = os.environ.get("VERIF_SCRATCH")
        if base:
            os.makedirs(base, exist_ok=True)
        self.scratch = tempfile.mkdtemp(prefix="verif-%s-" % pid, dir=base)
        self.keep = bool(os.environ.get("VERIF_KEEP"))
        atexit.register(self.cleanup)
        self.t0 = time.time()
        self._drv = None
        self._n = 0
        self.violations = []     # dicts: signature, what, replay
        self.known_hits = []
        self.drift = []
        self.tlc_runs = []       # dicts for the evidence
        self.states = 0
        self.transitions = 0
        self.traces_validated = 0
        self.samples = []
        self.notes = {}
        self.assumptions = []
        self.replay_dir = os.path.join(REPLAYS, pid)

    def cleanup(self):
        if not self.keep:
            shutil.rmtree(self.scratch, ignore_errors=True)

    def quick(self):
        return self.tier == "quick"

    def subdir(self, name):
        self._n += 1
        d = os.path.join(self.scratch, "%02d-%s" % (self._n, name))
        os.makedirs(d)
        return d

    # ---------------------------------------------------------------- TLC
    def spec_dir(self, name="spec"):
        d = self.subdir(name)
        for f in os.listdir(SPEC):
            if f.endswith((".tla", ".cfg", ".ndjson")):
                shutil.copy(os.path.join(SPEC, f), d)
        return d

    def tlc_cmd(self, module, cfg, workers=None, extra=(), metadir=None):
        w = str(workers if workers else NCPU)
        return ["tlc", "-workers", w, "-metadir", metadir, "-config", cfg] + list(extra) + [module]

    def tlc(self, module, cfg, workers=None, extra=(), timeout=900, what=None, count=True,
            cwd=None, env=None, expect_ok=True):
        """Run TLC to completion and return a TlcResult."""
        d = cwd or self.spec_dir("tlc-" + cfg.replace(".cfg", ""))
        cmd = self.tlc_cmd(module, cfg, workers, extra, os.path.join(d, "md"))
        t = time.time()
        e = dict(os.environ)
        # the JVM would take 25% of the machine's memory per TLC process (and TLC a quarter of that again for its
        # fingerprint set): cap the heap so that several processes side by side cannot exhaust the machine
        jvm = "-Xss256m -Xmx%s" % ("4g" if (workers == 1 or cwd) else "8g")
        e.setdefault("JAVA_TOOL_OPTIONS", jvm)
        if env:
            if "JAVA_TOOL_OPTIONS" in env:
                if "-Xmx" in env["JAVA_TOOL_OPTIONS"]:
                    jvm = "-Xss256m"
                env = dict(env, JAVA_TOOL_OPTIONS=env["JAVA_TOOL_OPTIONS"] + " " + jvm)
            e.update(env)
        try:
            p = subprocess.run(["timeout", str(timeout)] + cmd, cwd=d, stdout=subprocess.PIPE,
                               stderr=subprocess.STDOUT, text=True, env=e)
        except OSError as ex:
            raise Inconclusive("cannot run tlc: %s" % ex)
        r = TlcResult(p.returncode, p.stdout, time.time() - t)
        if p.returncode == 124:
            raise Inconclusive("TLC timed out after %ss on %s" % (timeout, cfg))
        rec = {"cfg": cfg, "module": module, "generated": r.generated, "distinct": r.distinct,
               "depth": r.depth, "wall_s": round(r.wall, 1), "ok": r.ok, "what": what or ""}
        self.tlc_runs.append(rec)
        if count:
            self.states += r.distinct
            self.transitions += r.generated
        if expect_ok and not r.ok:
            tail = "\n".join(r.out.splitlines()[-40:])
            raise Inconclusive("TLC did not finish cleanly on %s (rc=%s):\n%s" % (cfg, r.rc, tail))
        return r

    def tlc_many(self, module, cfgs, what=None, timeout=3600, parallel=4, count=True):
        """several exhaustive runs side by side (one config per property family); returns {cfg: TlcResult}"""
        from concurrent.futures import ThreadPoolExecutor
        w = max(2, NCPU // parallel)
        with ThreadPoolExecutor(max_workers=parallel) as ex:
            futs = {cfg: ex.submit(self.tlc, module, cfg, w, (), timeout, what, count, None, None, False) for cfg in cfgs}
            return {cfg: f.result() for cfg, f in futs.items()}

    # ---------------------------------------------------------------- Go driver
    def go_env(self):
        e = dict(os.environ)
        e.update(GOENV)
        return e

    def harness_dir(self):
        """a scratch copy of the harness module whose replace directive points at the tree under test"""
        d = os.path.join(self.scratch, "harness")
        if os.path.isdir(d):
            return d
        shutil.copytree(HARNESS, d)
        gm = open(os.path.join(d, "go.mod")).read()
        gm = re.sub(r"replace github.com/fluffle/goirc => .*", "replace github.com/fluffle/goirc => " + self.repo, gm)
        open(os.path.join(d, "go.mod"), "w").write(gm)
        shutil.copy(os.path.join(self.repo, "go.sum"), os.path.join(d, "go.sum"))
        return d

    def drv(self, race=False):
        """build (once) and return the path of the driver binary, from the repo's working tree, hooks on"""
        key = "drv-race" if race else "drv"
        path = os.path.join(self.scratch, key)
        if os.path.exists(path):
            return path
        d = self.harness_dir()
        cmd = ["go", "build", "-tags", "verif"] + (["-race"] if race else []) + ["-o", path, "./cmd/drv"]
        p = subprocess.run(cmd, cwd=d, env=self.go_env(), stdout=subprocess.PIPE, stderr=subprocess.STDOUT, text=True)
        if p.returncode != 0:
            raise Inconclusive("driver build failed:\n" + p.stdout[-4000:])
        return path

    def run_drv(self, args, stdin=None, timeout=1800, race=False, env=None, input_text=None):
        e = self.go_env()
        if env:
            e.update(env)
        e.setdefault("VERIF_SEED", str(self.seed))
        p = subprocess.run([self.drv(race)] + list(args), stdin=stdin, input=input_text, stdout=subprocess.PIPE,
                           stderr=subprocess.STDOUT, text=True, env=e, timeout=timeout)
        return p.returncode, p.stdout

    def pipe_tlc_to_drv(self, module, cfg, drv_args, workers=1, extra=(), timeout=3600, what=None, count=True):
        """TLC's stdout streamed into a driver sub-command (edge / script replay).
        Returns (drv_rc, drv_output, TlcResult-like parsed from passthrough)."""
        d = self.spec_dir("tlc-" + cfg.replace(".cfg", ""))
        cmd = ["timeout", str(timeout)] + self.tlc_cmd(module, cfg, workers, extra, os.path.join(d, "md"))
        drv = [self.drv()] + list(drv_args)
        t = time.time()
        e1 = dict(os.environ)
        # (the large closures of the thorough tier keep their unexplored states on a queue that 6 GB cannot hold)
        e1.setdefault("JAVA_TOOL_OPTIONS", "-Xss256m -Xmx%s" % ("6g" if self.quick() else "20g"))
        p1 = subprocess.Popen(cmd, cwd=d, stdout=subprocess.PIPE, stderr=subprocess.STDOUT, env=e1)
        p2 = subprocess.Popen(drv, stdin=p1.stdout, stdout=subprocess.PIPE, stderr=subprocess.STDOUT, text=True, env=self.go_env())
        p1.stdout.close()
        out, _ = p2.communicate()
        rc1 = p1.wait()
        tl = "\n".join(l[5:] for l in out.splitlines() if l.startswith("TLC: "))
        r = TlcResult(rc1, tl, time.time() - t)
        if rc1 == 124:
            raise Inconclusive("TLC timed out on %s" % cfg)
        self.tlc_runs.append({"cfg": cfg, "module": module, "generated": r.generated, "distinct": r.distinct,
                              "depth": r.depth, "wall_s": round(r.wall, 1), "ok": r.ok, "what": what or ""})
        if count:
            self.states += r.distinct
            self.transitions += r.generated
        return p2.returncode, out, r

    def validate_trace(self, module, cfg, trace_path, what=None, timeout=1800, dfs=False, trace_name="trace.ndjson"):
        """Trace validation: TLC checks a recorded ND-JSON trace against a trace spec (acceptance by
        POSTCONDITION).  Returns (accepted, message, TlcResult)."""
        d = self.spec_dir("tv-" + cfg.replace(".cfg", ""))
        shutil.copy(trace_path, os.path.join(d, trace_name))
        env = {}
        if dfs:
            env["JAVA_TOOL_OPTIONS"] = "-Dtlc2.tool.queue.IStateQueue=StateDeque -Xmx12g"  # depth-first over a long trace: deep stack of states
        r = self.tlc(module, cfg, workers=1, timeout=timeout, what=what or "trace validation", count=True, cwd=d, env=env, expect_ok=False)
        if r.ok:
            return True, "", r
        m = re.search(r"REJECTED at event.*?(?=\n\S)", r.out, re.S)
        if m or ("Invariant" in r.out and "is violated" in r.out) or re.search(r"Postcondition \S+ .*is false", r.out):
            msg = (m.group(0) if m else "") + " " + " ".join(r.violated())
            return False, re.sub(r"\s+", " ", msg)[:1500], r
        raise Inconclusive("trace validation did not run cleanly on %s (rc=%s):\n%s" % (cfg, r.rc, "\n".join(r.out.splitlines()[-40:])))

    def validate_sharded(self, module, cfg, trace_path, shards=8, what=None, timeout=3600):
        """records that are independent of each other (one call / one message per line) are validated by several TLC
        processes side by side; returns the list of (accepted, message, TlcResult) per shard"""
        from concurrent.futures import ThreadPoolExecutor
        lines = open(trace_path).read().splitlines()
        shards = max(1, min(shards, len(lines) // 50 or 1))
        files = []
        d = self.subdir("shards")
        for k in range(shards):
            p = os.path.join(d, "shard%d.ndjson" % k)
            with open(p, "w") as f:
                f.write("\n".join(lines[k::shards]) + "\n")
            files.append(p)
        with ThreadPoolExecutor(max_workers=shards) as ex:
            return list(ex.map(lambda p: self.validate_trace(module, cfg, p, what=what, timeout=timeout), files))

    # ---------------------------------------------------------------- verdicts
    def save_replay(self, src_or_obj, name):
        os.makedirs(self.replay_dir, exist_ok=True)
        dst = os.path.join(self.replay_dir, name)
        if isinstance(src_or_obj, str) and os.path.exists(src_or_obj):
            shutil.copy(src_or_obj, dst)
        else:
            with open(dst, "w") as f:
                json.dump(src_or_obj, f, indent=1, default=str)
        return dst

    def violation(self, signature, what, replay):
        self.violations.append({"signature": signature, "what": what, "replay": replay})

    def summary_line(self, out, tag="SUMMARY "):
        for l in reversed(out.splitlines()):
            if l.startswith(tag):
                return json.loads(l[len(tag):])
        return None


def load_known(pid):
    res = []
    if os.path.exists(KNOWN):
        for l in open(KNOWN):
            l = l.strip()
            if not l or l.startswith("#"):
                continue
            k = json.loads(l)
            if k.get("property") == pid:
                res.append(k)
    return res


def finish(ctx, level, coverage, rule=None):
    """classify violations, print verdict lines, write the evidence file, return exit code"""
    known = [k for k in load_known(ctx.pid) if k.get("status") == "known"]
    new = []
    hit = {}
    for v in ctx.violations:
        m = None
        for k in known:
            if re.fullmatch(k["signature"], v["signature"]):
                m = k
                break
        if m:
            hit.setdefault(m["signature"], (m, []))[1].append(v)
        else:
            new.append(v)
    for sig, (k, vs) in hit.items():
        log("KNOWN-FINDING: property=%s %s (%d occurrence(s) this run, e.g. %s)" % (ctx.pid, k["what"], len(vs), vs[0]["signature"]))
    for d in ctx.drift:
        log("DRIFT property=%s %s" % (ctx.pid, d))
    seen = set()
    for v in new:
        if v["signature"] in seen:
            continue
        seen.add(v["signature"])
        log("VIOLATION property=%s replay=%s" % (ctx.pid, v["replay"]))
        log("  what: %s [signature %s]" % (v["what"], v["signature"]))
    cov = dict(coverage)
    cov.setdefault("states", ctx.states)
    cov.setdefault("transitions", ctx.transitions)
    cov.setdefault("traces_validated_against_impl", ctx.traces_validated)
    if ctx.samples and "samples" not in cov:
        cov["samples"] = ctx.samples[:6]
    cov["tlc_runs"] = ctx.tlc_runs
    if ctx.drift:
        cov["drift"] = ctx.drift
    if ctx.notes:
        cov.update(ctx.notes)
    cov["known_findings_hit"] = [s for s in hit]
    ev = {"property_id": ctx.pid, "tier": ctx.tier, "seed": ctx.seed, "level": level, "coverage": cov,
          "assumptions": ctx.assumptions, "wall_s": round(time.time() - ctx.t0, 1), "violations": len(new)}
    os.makedirs(EVIDENCE, exist_ok=True)
    with open(os.path.join(EVIDENCE, ctx.pid + ".json"), "w") as f:
        json.dump(ev, f, indent=1, default=str)
    log("%s tier=%s seed=%d: %s in %.1fs (states=%d transitions=%d traces=%d)" % (
        ctx.pid, ctx.tier, ctx.seed, "VIOLATED" if new else "ok", time.time() - ctx.t0,
        cov["states"], cov["transitions"], cov["traces_validated_against_impl"]))
    return 1 if new else 0
