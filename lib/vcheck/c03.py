"""C03 - see lib/vcheck/phases.py and spec/Phases.tla."""
from . import phases


def run(ctx):
    return phases.run_phases(ctx, "C03", "foreground handlers one line at a time in wire order; CONNECTED after 001 applied and before later lines; DISCONNECTED after every foreground invocation finished")


def replay(ctx, path):
    return phases.replay(ctx, path)
