"""Shared by C08 and C11: calls of the command methods, enumerated by TLC from the universe declared in
MCCommands.tla and drawn at random by the driver, are executed on a connected client; the bytes the server
received per call are validated by TLC against Commands.tla (C08OK / C11OK / EncodeOK per record)."""
import os, re
from . import common


def run_calls(ctx, cfg, random_calls, mode, preout=None):
    d = ctx.subdir("cmd-calls")
    tr = os.path.join(d, "trace.ndjson")
    rc, out, tl = ctx.pipe_tlc_to_drv("MCCommands.tla", cfg, ["cmd-calls", "-out", tr, "-seed", str(ctx.seed), "-random", str(random_calls), "-mode", mode] + (["-preout", preout] if preout else []),
                                      workers=None, what="call universe of MCCommands.tla: methods x argument positions x payloads x SplitLen")
    s = ctx.summary_line(out)
    if rc != 0 or s is None or not tl.ok:
        raise common.Inconclusive("command driver failed (rc=%s): %s\n%s" % (rc, out[-2000:], tl.out[-1500:]))
    return tr, s


def verdicts(ctx, tr, what):
    res = ctx.validate_sharded("CommandsTrace.tla", "CommandsTrace.cfg", tr, shards=12, what=what)
    tot = {"C08": 0, "C11": 0, "ENCODE": 0}
    examples = {"C08": [], "C11": [], "ENCODE": []}
    for ok, msg, r in res:
        m = re.search(r'"VERDICT",\s*"C08",\s*(\d+),\s*"C11",\s*(\d+),\s*"ENCODE",\s*(\d+)', r.out)
        if not m:
            raise common.Inconclusive("trace validation gave no verdict:\n" + "\n".join(r.out.splitlines()[-30:]))
        for k, v in zip(("C08", "C11", "ENCODE"), m.groups()):
            tot[k] += int(v)
        for k in examples:
            for mm in re.finditer(r'"NONCONFORMING-%s",\s*\d+,\s*(\[.*?\])\s*>>' % k, r.out, re.S):
                if len(examples[k]) < 3:
                    examples[k].append(re.sub(r"\s+", " ", mm.group(1))[:900])
    return tot, examples
