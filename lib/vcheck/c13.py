"""C13 - tracked state equals the server's ground truth for the client's channels."""
from . import common, netw


def run(ctx):
    res = [("closure", netw.edge_run(ctx, "MCNetwork_quick.cfg" if ctx.quick() else "MCNetwork_thorough.cfg",
                                     "closure of the model network (%s), every edge replayed with state tracking" % ("1 user, 1 channel, 4 events" if ctx.quick() else "2 users, 2 channels, 4 events")))]
    res.append(("nicks", netw.edge_run(ctx, "MCNetwork_nicks.cfg" if ctx.quick() else "MCNetwork_nicks_t.cfg",
                                       "closure of the nick-centred universe (renames between names that are prefixes of each other or differ only in letter case), state tracking")))
    n, depth = (40, 60) if ctx.quick() else (600, 120)
    res.append(("sim", netw.edge_run(ctx, "MCNetwork_sim.cfg", "random sessions of the model network with 2 users and 2 channels",
                                     extra=["-simulate", "num=%d" % n, "-depth", str(depth), "-seed", str(ctx.seed)])))
    for _, s in res:
        netw.collect(ctx, s, "C13")
    sp, tr, out = netw.soup(ctx, 200 if ctx.quick() else 5000, 40 if ctx.quick() else 120)
    if sp is None:
        rp = ctx.save_replay({"output": out[-3000:]}, "c13-soup-died.json")
        ctx.violation("net/soup-died", "the client process died on an arbitrary line: " + out[out.find("panic:"):][:200], rp)
        soup_s = {"soup_records": 0, "sessions": 0}
    else:
        ok, msg, soup_s = sp
        if soup_s["bad_soup"]:
            rp = ctx.save_replay(tr, "c13-soup-trace.ndjson")
            ctx.violation("net/robustness", "after an arbitrary line the tracker lost the client's entry, tracks a channel without the client, or keeps a user sharing no channel: " + msg[:500], rp)
    ev = {}
    for _, s in res:
        for k, v in s["event_counts"].items():
            ev[k] = ev.get(k, 0) + v
    missing = [e for e in ("mejoin", "reply324", "replywho", "otherjoin", "otherpart", "otherkicked", "otherquit", "othernick", "mepart", "mekicked", "privchange", "doublechange", "topicchange") if not ev.get(e)]
    if missing:
        raise common.Inconclusive("vacuous: events never replayed: %s" % missing)
    ctx.samples = [x for _, s in res for x in (s.get("samples") or [])][:2]
    ctx.traces_validated = sum(s["edges"] for _, s in res) + soup_s["sessions"]
    ctx.assumptions += ["outside the claim and normalised on both sides: user modes from WHO flags, real names, channel flags other than the key, the client's own user@host; "
                        "user@host shown only by a JOIN prefix may or may not be recorded; list modes and key removal followed by argument-taking modes are not generated",
                        "the model network is the oracle: Network.tla has no model of the handlers, the real client plays that part in every replayed edge"]
    cov = {"evaluations": sum(s["edges"] for _, s in res) + soup_s["soup_records"], "distinct_nontrivial": sum(s["states"] for _, s in res),
           "rule": "one evaluation = one server event of the model network replayed on a real tracked client (lines sent, answers and the full tracker projection compared) or one "
                   "arbitrary line of a soup; distinct = distinct network states reached",
           "exhaustive": True, "event_counts": ev, "soup": soup_s,
           "per_config": {n: {k: s[k] for k in ("edges", "states", "sessions", "failures")} for n, s in res}}
    return common.finish(ctx, "model_checking", cov)


def replay(ctx, path):
    if path.endswith(".ndjson"):
        ok, msg, r = ctx.validate_trace("RobustTrace.tla", "RobustTrace.cfg", path)
        print("accepted" if ok else "REJECTED: " + msg)
        return 0 if ok else 1
    rc, out = ctx.run_drv(["net-edges", "-replay", path])
    print(out)
    return rc
