"""C06 - lifecycle events fire exactly once and agree with Connected()."""
from . import conn


def run(ctx):
    return conn.run_lifecycle(ctx, {"C06"}, "REGISTER once per successful Connect, DISCONNECTED exactly once per connection whatever ends it, Connected() samples, refused Connect harmless")


def replay(ctx, path):
    return conn.replay(ctx, path)
