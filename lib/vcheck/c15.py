"""C15 - each handler invocation gets its own copy of the line.
The storage rule of spec/Dispatch.tla (every invocation of the internal, foreground and background sets has its
own argument array and its own tag map, equal to the parsed event on entry) is evaluated by TLC
(CopiesTrace.tla) on records taken inside real handlers: address of the argument array, address of the tag
map, content on entry; every handler then scribbles over everything it was given."""
import os
from . import common


def run(ctx):
    d = ctx.subdir("copies")
    tr = os.path.join(d, "trace.ndjson")
    n, nh = (250, 3) if ctx.quick() else (3000, 5)
    rc, out = ctx.run_drv(["copies", "-n", str(n), "-handlers", str(nh), "-seed", str(ctx.seed), "-out", tr], timeout=3600)
    s = ctx.summary_line(out)
    if (rc != 0 or s is None) and ("concurrent map" in out or "fatal error" in out):
        # handlers editing "their own" line crashed the process: the storage was shared
        i = out.find("fatal error")
        rp = ctx.save_replay({"output": out[max(0, i):][:4000]}, "c15-process-died.json")
        ctx.violation("copies/process-died", "handlers that edit the line they were given crashed the process (shared storage): " + out[max(0, i):][:200].replace("\n", " "), rp)
        return common.finish(ctx, "model_checking", {"evaluations": 1, "distinct_nontrivial": 2, "rule": "the driver died before the trace was complete", "samples": [out[max(0, i):][:300]]})
    if rc != 0 or s is None:
        raise common.Inconclusive("copies driver failed (rc=%s): %s" % (rc, out[-1500:]))
    ok, msg, r = ctx.validate_trace("CopiesTrace.tla", "CopiesTrace.cfg", tr, what="storage identities and entry content per dispatched line")
    if not ok:
        rp = ctx.save_replay(tr, "c15-trace.ndjson")
        ctx.violation("copies/shared-or-unequal", "handler invocations of one line did not all get private, equal copies: " + msg[:600], rp)
    ctx.traces_validated = s["lines"]
    ctx.samples = [{"raw": "@ :n3!u@h ZCA a3-0 :a3-1 trailing words", "handlers": s["handlers_per_line"]}]
    ctx.assumptions += ["every received line is kept alive until the end of the run, so the allocator cannot legitimately reuse an address",
                        "zero-length argument lists are exempt from the identity comparison (they may share the runtime's zero-size base)"]
    cov = {"evaluations": s["invocations"], "distinct_nontrivial": s["lines"],
           "rule": "one evaluation = one handler invocation (per verb 1/1/1, %d per set, or 0/1/2 handlers in the internal/foreground/background sets); distinct = dispatched lines (0..15 arguments; no tag section, empty tag sections '@ ' '@; ', "
                   "key-only, escaped and multiple tags)" % nh,
           "lines": s["lines"]}
    return common.finish(ctx, "model_checking", cov)


def replay(ctx, path):
    ok, msg, r = ctx.validate_trace("CopiesTrace.tla", "CopiesTrace.cfg", path)
    print("accepted" if ok else "REJECTED: " + msg)
    return 0 if ok else 1
