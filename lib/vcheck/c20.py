"""C20 - the connection password never reaches the log."""
import os
from . import common


def run(ctx):
    d = ctx.subdir("logpw")
    tr = os.path.join(d, "trace.ndjson")
    rc, out = ctx.run_drv(["logpw", "-out", tr, "-passwords", "24" if ctx.quick() else "500", "-seed", str(ctx.seed)], timeout=3600)
    s = ctx.summary_line(out)
    if rc != 0 or s is None:
        raise common.Inconclusive("log driver failed (rc=%s): %s" % (rc, out[-1500:]))
    res = ctx.validate_sharded("LogTrace.tla", "LogTrace.cfg", tr, shards=8, what="no log record contains the password; PASS shown masked")
    bad = [(ok, msg) for ok, msg, r in res if not ok]
    if bad:
        rp = ctx.save_replay(tr, "c20-trace.ndjson")
        ctx.violation("log/password-leak", "a log record contains the connection password in clear: " + bad[0][1][:500], rp)
    if s["records"] < 100:
        raise common.Inconclusive("vacuous: hardly any log record captured")
    ctx.traces_validated = s["sessions"]
    ctx.samples = [s["sample"]]
    ctx.assumptions += ["a password that is a substring of what the same session logs without any password is skipped for that session (it could not be told apart)",
                        "thin use of the technique: TLA+ contributes the invariant and validates the records; the search over passwords and fault sessions is the driver's"]
    cov = {"evaluations": s["records"], "distinct_nontrivial": s["sessions"],
           "rule": "one evaluation = one log record (any level) of a session; distinct = sessions = passwords x session kinds (plain, negotiation, tracking, ConnectTo, dial failure, refused "
                   "connect, EOF after the burst, the n-th socket write failing for n = 1..4 with and without negotiation - so that the PASS line itself fails)",
           "sessions": s["sessions"], "session_kinds": s["session_kinds"], "skipped": s["skipped_password_in_baseline"]}
    return common.finish(ctx, "model_checking", cov)


def replay(ctx, path):
    ok, msg, r = ctx.validate_trace("LogTrace.tla", "LogTrace.cfg", path)
    print("accepted" if ok else "REJECTED: " + msg)
    return 0 if ok else 1
