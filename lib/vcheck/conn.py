"""Shared by C06, C07, C09: model checking of spec/Conn.tla (config families), the sensitivity
configs (each defect constant must make TLC report a violation, otherwise the bounded model
never exercises the property), and the lifecycle scenario families on the real client."""
import json, os, re, subprocess
from . import common

# quick tier: C06 takes the cause families, C07 the blocking / reconnect families (both run the scenario families)
QUICK_CFGS = {"C06": ["MCConn_q_close.cfg", "MCConn_q_eof.cfg", "MCConn_q_werr.cfg", "MCConn_q_coincide.cfg"],
              "C07": ["MCConn_q_cancel.cfg", "MCConn_q_ping.cfg", "MCConn_q_rc_handler_eof.cfg"]}
THOROUGH_CFGS = ["MCConn_q_close.cfg", "MCConn_q_eof.cfg", "MCConn_q_werr.cfg", "MCConn_q_coincide.cfg", "MCConn_q_cancel.cfg", "MCConn_q_ping.cfg",
                 "MCConn_q_rc_handler_eof.cfg", "MCConn_q_rc_other_eof.cfg", "MCConn_t_close.cfg", "MCConn_t_eof.cfg", "MCConn_t_cancel.cfg", "MCConn_t_werr.cfg", "MCConn_t_teardown_full.cfg",
                 "MCConn_t_ping.cfg", "MCConn_t_rc_handler_close.cfg", "MCConn_t_rc_handler_cancel.cfg", "MCConn_t_rc_handler.cfg", "MCConn_t_rc_other.cfg", "MCConn_t_rc3.cfg",
                 "MCConn_q_rc_eager.cfg", "MCConn_t_rc_eager.cfg"]
OUT_QUICK = ["MCConn_q_out.cfg"]
OUT_THOROUGH = ["MCConn_t_out.cfg", "MCConn_t_out_stall.cfg"]
DEFECTS = {"MCConn_defect_drainonce.cfg": "D5 drain-once Close", "MCConn_defect_staleclose.cfg": "D6 stale Close of an old generation",
           "MCConn_defect_nowatcher.cfg": "D7 nobody closes on cancellation", "MCConn_defect_initcheck.cfg": "D4 initialise before the connected test"}


def model_check(ctx, cfgs, timeout=None):
    timeout = timeout or (240 if ctx.quick() else 5400)
    """the repaired design must satisfy every invariant and liveness property"""
    for cfg, r in ctx.tlc_many("Conn.tla", cfgs, what="Conn.tla exhaustive, safety + liveness under weak fairness", timeout=timeout).items():
        if not r.ok:
            v = r.violated()
            if v:
                # the DESIGN is wrong for these constants: not evidence about the code, so not a violation
                raise common.Inconclusive("TLC found the repaired design violating %s under %s - the model needs attention:\n%s" % (v, cfg, "\n".join(r.out.splitlines()[-60:])))
            raise common.Inconclusive("TLC failed on %s (rc=%s):\n%s" % (cfg, r.rc, "\n".join(r.out.splitlines()[-30:])))


DEFECTS_THOROUGH = {"MCConn_defect_earlyunlock.cfg": "close releases the lifecycle lock before it waits (seeded change C07e) while another goroutine reconnects eagerly"}


def sensitivity(ctx):
    res = {}
    defects = dict(DEFECTS)
    if not ctx.quick():
        defects.update(DEFECTS_THOROUGH)
    rs = ctx.tlc_many("Conn.tla", list(defects), what="defect variant: TLC must find the violation", timeout=900, count=False)
    for cfg, what in defects.items():
        r = rs[cfg]
        v = r.violated()
        if not v:
            raise common.Inconclusive("vacuous model: the defect variant %s (%s) satisfies every property" % (cfg, what))
        res[cfg] = v
    return res


def conformance(ctx, traces, results):
    """implementation conformance: the hook events of the scenarios, recorded with the goroutine that emitted them, are
    validated against ConnTrace.tla.  AtMostOneDisc / OwnClose violated on real events are property violations (the
    DISCONNECTED dispatch and the socket a closer was started for are observable); any other rejection is DRIFT."""
    import re, json
    from concurrent.futures import ThreadPoolExecutor
    # one scenario = the events from one "reset" to the next; scenarios are dealt round-robin into shards that are
    # validated side by side, each within a budget: how long TLC needs depends on the schedule that was recorded
    # (a receive is logged after it happened, the search has to place the silent steps)
    scen = []
    for tr in traces:
        if not os.path.exists(tr) or os.path.getsize(tr) == 0:
            continue
        cur = None
        for l in open(tr):
            if '"reset"' in l:
                cur = []
                scen.append(cur)
            if cur is not None:
                cur.append(l)
    if not scen:
        return 0, 0
    nshards = min(8, len(scen))
    d = ctx.subdir("conn-shards")
    files = []
    for k in range(nshards):
        pth = os.path.join(d, "shard%d.ndjson" % k)
        with open(pth, "w") as f:
            for sc in scen[k::nshards]:
                f.writelines(sc)
        files.append((pth, len(scen[k::nshards]), sum(len(sc) for sc in scen[k::nshards])))
    budget = 90 if ctx.quick() else 900

    def one(item):
        pth, nsc, nev = item
        try:
            ok, msg, r = ctx.validate_trace("ConnTrace.tla", "ConnTrace.cfg", pth, what="hook events of the lifecycle scenarios against ConnTrace.tla", timeout=budget, dfs=True)
            return pth, nsc, nev, ok, msg, r, None
        except common.Inconclusive as e:
            return pth, nsc, nev, None, "", None, str(e)
    with ThreadPoolExecutor(max_workers=4) as ex:
        outcomes = list(ex.map(one, files))
    accepted = events = unmatched = 0
    for pth, nsc, nev, ok, msg, r, err in outcomes:
        if err is not None:
            if "timed out" in err:
                unmatched += nsc      # not decided within the budget: neither accepted nor rejected
            else:
                ctx.drift.append("the hook trace could not be validated against ConnTrace.tla (%s)" % err[:200])
            continue
        events += nev
        if ok:
            accepted += nsc
            continue
        inv = r.violated()
        if any("TraceInv" in v for v in inv):
            rp = ctx.save_replay(pth, "conn-trace-%s.ndjson" % ctx.pid)
            ctx.violation("conntrace/invariant", "on recorded hook events a connection generation got a second DISCONNECTED or was closed by a goroutine of another generation "
                          "(AtMostOneDisc / OwnClose of Conn.tla violated): " + msg[:300], rp)
        else:
            ctx.drift.append("the code no longer follows ConnTrace.tla (the listed properties held on everything observed): " + msg[:300])
    ctx.conn_unmatched = unmatched
    return accepted, events


def scenarios(ctx, tier, trace_dir=None):
    """run the lifecycle scenario families; a crashed or tainted driver process is restarted after the scenario in flight"""
    results, start, rounds = [], 0, 0
    qcap = None
    traces = []
    while True:
        rounds += 1
        if rounds > 400:
            raise common.Inconclusive("scenario driver keeps dying")
        extra = []
        if trace_dir:
            traces.append(os.path.join(trace_dir, "trace-%d.ndjson" % rounds))
            extra = ["-trace", traces[-1]]
        try:
            rc, out = ctx.run_drv(["conn-life", "-tier", tier, "-seed", str(ctx.seed), "-from", str(start)] + extra, timeout=3600)
        except subprocess.TimeoutExpired:
            raise common.Inconclusive("scenario driver timed out")
        begun = None
        for l in out.splitlines():
            if l.startswith("BEGIN "):
                begun = json.loads(l[6:])
            elif l.startswith("RESULT "):
                results.append(json.loads(l[7:]))
                begun = None
        s = ctx.summary_line(out)
        if s and s.get("qcap"):
            qcap = s["qcap"]
        if rc in (0, 1) and s is not None:
            break
        if rc == 4 and results:
            if sum(1 for r in results if r.get("problems")) >= 8:
                break   # enough evidence: every further failing scenario costs a deadline and a fresh process
            start = results[-1]["scenario"]["id"] + 1
            continue
        if begun is not None and ("panic:" in out or "fatal error:" in out or "SIGSEGV" in out):
            i = out.find("panic:")
            if i < 0:
                i = out.find("fatal error:")
            results.append({"scenario": begun, "problems": [{"property": "C06" if begun.get("connect_while_up") else "C07", "kind": "process-died",
                                                             "detail": out[i:i + 1500], "cycle": 0}], "events": [], "close_ms": 0})
            start = begun["id"] + 1
            continue
        raise common.Inconclusive("scenario driver failed (rc=%s): %s" % (rc, out[-2000:]))
    return results, qcap, traces


def key_of(sc):
    def cls(n, cap=32):
        return "0" if n == 0 else "<=cap" if n <= cap else "<=2cap" if n <= 2 * cap else ">2cap"
    return "in=%s out=%s/%s handler=%s causes=%s flood=%s reconnect=%s up=%s calls=%s%s" % (
        cls(sc["in"]), cls(sc["out"]), sc["out_by"], sc["handler"], "+".join(sc["causes"]), sc["flood"], sc["reconnect"], sc["connect_while_up"],
        sc.get("calls", ""), (" tracking" if sc["tracking"] else "") + (" storm" if sc.get("storm") else "") + (" disc-close" if sc.get("disc_close") else "")
        + (" lingering-bg-DISCONNECTED" if sc.get("bg_disc") else "") + ((" after-failed-" + sc["fail_first"]) if sc.get("fail_first") else ""))


def collect(ctx, results, props):
    n = 0
    for r in results:
        for p in r.get("problems") or []:
            if p["property"] not in props:
                continue
            n += 1
            sig = "life/%s/%s" % (p["kind"], key_of(r["scenario"]))
            rp = ctx.save_replay(r, "life-%03d-%s.json" % (r["scenario"]["id"], p["kind"]))
            ctx.violation(sig, "%s in scenario %s: %s" % (p["kind"], key_of(r["scenario"]), p["detail"][:700]), rp)
    return n


def run_lifecycle(ctx, props, what):
    # thorough: C06 takes the cause families (which event fires how often), C07 the all-faults teardown and the
    # reconnect configurations (completion, no leak, fresh next connection); both keep the quick configurations
    rc = [c for c in THOROUGH_CFGS if "_rc" in c]
    tcfgs = [c for c in THOROUGH_CFGS if c not in rc] if ctx.pid == "C06" else [c for c in THOROUGH_CFGS if "_q_" in c or "_rc" in c or "teardown_full" in c]
    model_check(ctx, QUICK_CFGS[ctx.pid] if ctx.quick() else tcfgs)
    sens = sensitivity(ctx) if (ctx.pid == "C07" or not ctx.quick()) else {}
    tier = "quick" if ctx.quick() else "thorough"
    results, qcap, traces = scenarios(ctx, tier, ctx.subdir("conn-traces"))
    skipped = [r for r in results if r.get("skipped")]
    if len(skipped) > len(results) // 4:
        raise common.Inconclusive("too many scenarios could not be set up: %s" % skipped[:3])
    nviol = collect(ctx, results, props)
    acc, nev = (0, 0)
    if nviol == 0 and not any(r.get("problems") for r in results):
        acc, nev = conformance(ctx, traces, results)
    ctx.traces_validated = acc
    classes = sorted({key_of(r["scenario"]) for r in results})
    ctx.samples = [r["scenario"] for r in results[:1]] + [r["scenario"] for r in results if r["scenario"]["reconnect"] != "none"][:1] + \
                  [r["scenario"] for r in results if r["scenario"]["out"] > 64][:1]
    ctx.assumptions += ["TLC results are for queue capacity 1-2, 1-5 lines, 1-3 generations; the transfer to capacity %s rests on the scenario families being run at real scale" % qcap,
                        "a server that has gone away does not leave socket writes blocked for ever (they fail, as with TCP); a stalled but living server may",
                        "real schedules are sampled, not enumerated; bounded-time claims are checked against a 5 s (25 s with flood control) deadline plus a goroutine dump"]
    cov = {"evaluations": len(results), "distinct_nontrivial": len(classes),
           "rule": "one evaluation = one lifecycle scenario run on the real client (inbound/outbound backlog in units of the real queue capacity x handler state x cause(s) x "
                   "configuration x reconnect origin); distinct = distinct scenario classes (backlog class, who sends, handler state, causes, flood, reconnect, refused-connect)",
           "scenario_classes": len(classes), "queue_capacity": qcap, "scenarios_skipped": len(skipped),
           "defect_variants_detected_by_tlc": sens, "what": what,
           "hook_events_recorded": nev, "scenarios_accepted_by_ConnTrace": acc,
           "scenarios_not_decided_by_ConnTrace_within_budget": getattr(ctx, "conn_unmatched", 0)}
    return common.finish(ctx, "model_checking", cov)


def replay(ctx, path):
    rc, out = ctx.run_drv(["conn-life", "-scenario", path], timeout=600)
    print(out[-6000:])
    return rc if rc in (0, 1) else 1 if ("panic:" in out) else 2
