"""C08 - each API call writes only whole, single IRC commands of its own verb."""
from . import common, cmds


def run(ctx):
    import os, re
    pre = os.path.join(ctx.subdir("cmd-pre"), "pre.ndjson")
    tr, s = cmds.run_calls(ctx, "MCCommands_quick.cfg" if ctx.quick() else "MCCommands_thorough.cfg", 600 if ctx.quick() else 20000, "dirty", preout=pre)
    tot, ex = cmds.verdicts(ctx, tr, "C08OK (framing + verb) per recorded call")
    # calls made before the first Connect: only the framing / verb rule applies to whatever they put on the wire
    ok, msg, r = ctx.validate_trace("CommandsTrace.tla", "CommandsTrace.cfg", pre, what="command methods called before the first Connect: C08OK of whatever reaches the wire")
    m = re.search(r'"VERDICT",\s*"C08",\s*(\d+)', r.out)
    if not m:
        raise common.Inconclusive("no verdict for the pre-connect calls:\n" + "\n".join(r.out.splitlines()[-20:]))
    if int(m.group(1)):
        rp = ctx.save_replay(pre, "c08-preconnect-trace.ndjson")
        ex0 = re.findall(r'"NONCONFORMING-C08",\s*\d+,\s*(\[.*?\])\s*>>', r.out, re.S)
        ctx.violation("cmd/wire-not-ok/pre-connect", "%s command calls made before the first Connect put bytes on the wire (after it) that are not whole CRLF-terminated lines of the method's verb, e.g. %s" % (m.group(1), [re.sub(r"\s+", " ", e)[:400] for e in ex0[:1]]), rp)
    if tot["C08"]:
        rp = ctx.save_replay(tr, "c08-trace.ndjson")
        ctx.violation("cmd/wire-not-ok", "%d recorded calls put bytes on the wire that are not whole CRLF-terminated lines of the method's verb, e.g. %s" % (tot["C08"], ex["C08"][:1]), rp)
    if tot["ENCODE"]:
        ctx.drift.append("%d calls are framed correctly but not encoded exactly as Commands!Encode1 says, e.g. %s" % (tot["ENCODE"], ex["ENCODE"][:1]))
    if len(s["per_method"]) < 28:
        raise common.Inconclusive("vacuous: only %d of 28 methods were called" % len(s["per_method"]))
    ctx.traces_validated = s["calls"]
    ctx.samples = s["samples"] or [{"m": "Raw", "a": ["x\nQUIT"]}]
    ctx.assumptions += ["the end of a call's output is delimited by a Raw line with a random 64-bit token issued right after the call (same queue, same goroutine)",
                        "bytes are carried through JSON as the characters U+0000..U+00FF"]
    cov = {"evaluations": s["calls"], "distinct_nontrivial": s["enumerated"],
           "rule": "TLC enumerates methods x poisoned argument position(s) x payloads (CR, LF, CRLF, injected commands, NUL-free control bytes, 600 bytes) x SplitLen; the driver adds random "
                   "byte strings; one evaluation = one call executed on a connected client with the server-side bytes validated by TLC; distinct = enumerated calls (all distinct by construction)",
           "exhaustive": True, "per_method": s["per_method"], "random_calls": s["random"], "verdict_counts": tot}
    return common.finish(ctx, "model_checking", cov)


def replay(ctx, path):
    tot, ex = cmds.verdicts(ctx, path, "replay")
    print(tot, ex)
    return 1 if tot["C08"] else 0
