"""C08 - each API call writes only whole, single IRC commands of its own verb."""
from . import common, cmds


def run(ctx):
    tr, s = cmds.run_calls(ctx, "MCCommands_quick.cfg" if ctx.quick() else "MCCommands_thorough.cfg", 600 if ctx.quick() else 20000, "dirty")
    tot, ex = cmds.verdicts(ctx, tr, "C08OK (framing + verb) per recorded call")
    if tot["C08"]:
        rp = ctx.save_replay(tr, "c08-trace.ndjson")
        ctx.violation("cmd/wire-not-ok", "%d recorded calls put bytes on the wire that are not whole CRLF-terminated lines of the method's verb, e.g. %s" % (tot["C08"], ex["C08"][:1]), rp)
    if tot["ENCODE"]:
        ctx.drift.append("%d calls are framed correctly but not encoded exactly as Commands!Encode1 says, e.g. %s" % (tot["ENCODE"], ex["ENCODE"][:1]))
    if len(s["per_method"]) < 28:
        raise common.Inconclusive("vacuous: only %d of 28 methods were called" % len(s["per_method"]))
    ctx.traces_validated = s["calls"]
    ctx.samples = s["samples"] or [{"m": "Raw", "a": ["x\nQUIT"]}]
    ctx.assumptions += ["the end of a call's output is delimited by a Raw line with a random 64-bit token issued right after the call (same queue, same goroutine)",
                        "bytes are carried through JSON as the characters U+0000..U+00FF"]
    cov = {"evaluations": s["calls"], "distinct_nontrivial": s["enumerated"],
           "rule": "TLC enumerates methods x poisoned argument position(s) x payloads (CR, LF, CRLF, injected commands, NUL-free control bytes, 600 bytes) x SplitLen; the driver adds random "
                   "byte strings; one evaluation = one call executed on a connected client with the server-side bytes validated by TLC; distinct = enumerated calls (all distinct by construction)",
           "exhaustive": True, "per_method": s["per_method"], "random_calls": s["random"], "verdict_counts": tot}
    return common.finish(ctx, "model_checking", cov)


def replay(ctx, path):
    tot, ex = cmds.verdicts(ctx, path, "replay")
    print(tot, ex)
    return 1 if tot["C08"] else 0
