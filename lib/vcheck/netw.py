"""Shared by C13 and C17: spec/Network.tla (model IRC network, ground truth + what the protocol has revealed) is
explored by TLC - exhaustively for a small universe, by simulation for a larger one - and every edge (server
event -> lines sent, answers expected, revealed state) is replayed on a real client; arbitrary line soups and the
default nick generator are recorded and validated by TLC against RobustTrace.tla."""
import json, os
from . import common


def edge_run(ctx, cfg, what, extra=(), tracking=True, timeout=3600):
    out_dir = ctx.subdir("net-" + cfg.replace(".cfg", "") + ("" if tracking else "-plain"))
    args = ["net-edges", "-out", out_dir] + ([] if tracking else ["-notracking"])
    rc, out, tl = ctx.pipe_tlc_to_drv("MCNetwork.tla", cfg, args, workers=1, extra=extra, timeout=timeout, what=what)
    s = ctx.summary_line(out)
    if s is None or rc not in (0, 1):
        raise common.Inconclusive("network edge driver died (rc=%s): %s" % (rc, out[-3000:]))
    if not extra and not tl.ok:
        raise common.Inconclusive("TLC reported a problem with Network.tla on %s:\n%s" % (cfg, "\n".join(tl.out.splitlines()[-30:])))
    if s["failures"] == 0 and (s["edges"] == 0 or s["edges_with_unknown_source"]):
        raise common.Inconclusive("edge stream incomplete on %s" % cfg)
    if s.get("drift"):
        ctx.drift.append("%d replayed events differ from Network.tla only in requests no listed property claims (MODE/WHO after a join), e.g. %s" % (s["drift"], s["drift_example"][:200]))
    return s


def collect(ctx, s, prop):
    for f in s.get("failure_files") or []:
        j = json.load(open(f))
        details = [d for d in j["detail"].split(" | ") if d.startswith(prop)]
        if not details:
            continue
        rp = ctx.save_replay(f, "%s-%s" % ("trk" if j["tracking"] else "plain", os.path.basename(f)))
        ctx.violation("net/%s/%s" % (j["edge"]["o"]["ev"], "tracking" if j["tracking"] else "plain"),
                      "after the events %s: %s" % (j["events"], details[0][:600]), rp)


def soup(ctx, nrand, rlen):
    d = ctx.subdir("net-soup")
    tr = os.path.join(d, "trace.ndjson")
    rc, out = ctx.run_drv(["net-soup", "-out", tr, "-seed", str(ctx.seed), "-random", str(nrand), "-len", str(rlen)], timeout=3600)
    s = ctx.summary_line(out)
    if rc != 0 or s is None:
        if "panic:" in out:
            return None, tr, out
        raise common.Inconclusive("soup driver failed (rc=%s): %s" % (rc, out[-1500:]))
    ok, msg, r = ctx.validate_trace("RobustTrace.tla", "RobustTrace.cfg", tr, what="tracker projection after arbitrary lines + default nick generator sweep")
    import re
    m = re.search(r'"VERDICT",\s*"C13",\s*(\d+),\s*"C17",\s*(\d+)', r.out)
    if not m:
        raise common.Inconclusive("no verdict from RobustTrace: " + msg[:300] + "\n" + "\n".join(r.out.splitlines()[-15:]))
    s = dict(s, bad_soup=int(m.group(1)), bad_newnick=int(m.group(2)))
    ex = re.findall(r'"NONCONFORMING"[^\n]*', r.out)
    s["examples"] = [e[:300] for e in ex[:4]]
    return (ok, msg, s), tr, out
