"""C04 - every registered handler runs exactly once per matching event.
spec/Dispatch.tla models registrations (identity, set, case-insensitive name, body) and the three
dispatch phases; TLC computes the closure over a small universe (all orders of Handle / HandleBG /
internal handle / Remove / event, with bodies that remove themselves, remove others, register
handlers and panic), proves the model's action property, and every edge is replayed on a real
client over a real connection; -simulate adds long histories over more names."""
import json, os
from . import common


MAXREGS = {"MCDispatch_names.cfg": 1, "MCDispatch_quick.cfg": 2, "MCDispatch_thorough.cfg": 3, "MCDispatch_sim.cfg": 7}


def edge_run(ctx, cfg, what, extra=(), timeout=3600):
    out_dir = ctx.subdir("disp-" + cfg.replace(".cfg", ""))
    rc, out, tl = ctx.pipe_tlc_to_drv("MCDispatch.tla", cfg, ["disp-edges", "-out", out_dir, "-maxregs", str(MAXREGS[cfg])], workers=1, extra=extra, timeout=timeout, what=what)
    s = ctx.summary_line(out)
    if s is None or rc not in (0, 1):
        raise common.Inconclusive("dispatch edge driver died (rc=%s): %s" % (rc, out[-3000:]))
    if not extra and not tl.ok:
        raise common.Inconclusive("TLC reported a problem with Dispatch.tla on %s:\n%s" % (cfg, "\n".join(tl.out.splitlines()[-30:])))
    if s["failures"] == 0 and (s["edges"] == 0 or s["edges_with_unknown_source"]):
        raise common.Inconclusive("edge stream incomplete on %s" % cfg)
    return s


def collect(ctx, s, props):
    for f in s.get("failure_files") or []:
        j = json.load(open(f))
        if j["property"] not in props:
            continue
        rp = ctx.save_replay(f, os.path.basename(f))
        ctx.violation("disp/%s" % j["op"]["op"], "after %d operations, %s: %s" % (len(j.get("path") or []), {k: v for k, v in j["op"].items() if v}, j["detail"]), rp)


def runs(ctx):
    res = [("closure", edge_run(ctx, "MCDispatch_quick.cfg" if ctx.quick() else "MCDispatch_thorough.cfg",
                                "closure over 3 names (two differing only in case), %s registrations, all bodies; every edge replayed" % ("2" if ctx.quick() else "3")))]
    res.append(("names", edge_run(ctx, "MCDispatch_names.cfg", "one registration under each of 78 spellings (every letter in upper and lower case), an event under each spelling")))
    n, depth = (150, 14) if ctx.quick() else (3000, 24)
    res.append(("sim", edge_run(ctx, "MCDispatch_sim.cfg", "random histories over 6 names, up to 7 registrations",
                                extra=["-simulate", "num=%d" % n, "-depth", str(depth), "-seed", str(ctx.seed)])))
    return res


def run(ctx, props=("C04",)):
    res = runs(ctx)
    for _, s in res:
        collect(ctx, s, props)
    ev = sum(s["event_edges"] for _, s in res)
    eff = sum(s["events_with_effects"] for _, s in res)
    if ev == 0 or eff == 0 or sum(s["events_with_panics"] for _, s in res) == 0:
        raise common.Inconclusive("vacuous: no event with in-handler effects / panics was replayed")
    ctx.samples = [x for _, s in res for x in (s.get("samples") or [])][:3]
    ctx.traces_validated = sum(s["edges"] for _, s in res)
    ctx.assumptions += ["the background snapshot is pinned by the hset.dispatch.end hook of the background set (an event, not a timeout)",
                        "a foreground body that changes the background set races with the start of the background dispatch: both outcomes are accepted (bgmay)",
                        "each Remover is used at most once (the harness guards it like the model)"]
    cov = {"evaluations": sum(s["edges"] for _, s in res), "distinct_nontrivial": ev,
           "rule": "one evaluation = one edge of TLC's state graph of Dispatch.tla (register / remove / event) replayed on a real client driven to the source state; "
                   "non-trivial = event edges (their invocation multisets and recovery calls are compared)",
           "exhaustive": True, "events_with_effects": eff, "events_with_panics": sum(s["events_with_panics"] for _, s in res),
           "per_config": {n: {k: s[k] for k in ("edges", "states", "event_edges", "sessions", "failures")} for n, s in res}}
    return common.finish(ctx, "model_checking", cov)


def replay(ctx, path):
    rc, out = ctx.run_drv(["disp-edges", "-replay", path])
    print(out)
    return rc
