"""C01 - well-formed messages parse to exactly the components that were sent.
spec/IrcLine.tla defines the grammar as components with Render(m) and Expected(m).
(a) TLC enumerates the bounded product of component alphabets (MCIrcLine.tla) and emits
    Expected(m); the driver replays every message on ParseLine + Text/Target/Public and over a
    real connection in random read segmentations (line seen by a foreground handler);
(b) the driver draws messages from large alphabets, runs them through ParseLine and a
    connection, and TLC validates components/raw/delivered line against Render/Expected
    (IrcLineTrace.tla)."""
import json, os
from . import common


def run(ctx):
    conn = "2500" if ctx.quick() else "-1"
    cfgs = ["MCIrcLine_quick.cfg"] if ctx.quick() else ["MCIrcLine_thorough_s%d.cfg" % k for k in range(8)]

    def one(cfg):
        return ctx.pipe_tlc_to_drv("MCIrcLine.tla", cfg, ["irc-parse", "-conn", conn, "-seed", str(ctx.seed)], workers=2,
                                   what="bounded product of component alphabets; Expected(m) emitted per message")
    from concurrent.futures import ThreadPoolExecutor
    ctx.drv()  # build once, before the threads start
    with ThreadPoolExecutor(max_workers=8) as ex:
        parts = list(ex.map(one, cfgs))
    s = None
    for rc, out, tl in parts:
        p = ctx.summary_line(out)
        if p is None or rc not in (0, 1) or not tl.ok:
            raise common.Inconclusive("message replay did not complete (rc=%s): %s\n%s" % (rc, out[-1500:], tl.out[-1500:]))
        if s is None:
            s = p
        else:
            for k in ("messages", "distinct_raw", "ambiguous_renderings", "function_level_failures", "connection_level_messages", "connection_level_failures", "sessions"):
                s[k] += p[k]
            for k in ("failure_classes", "expected_cmd_counts"):
                for a, b in p[k].items():
                    s[k][a] = s[k].get(a, 0) + b
            s["findings"] = (s["findings"] or []) + (p["findings"] or [])
    if s["messages"] < 1000 or s["ambiguous_renderings"]:
        raise common.Inconclusive("generator problem: %s" % {k: s[k] for k in ("messages", "ambiguous_renderings")})
    for i, f in enumerate(s["findings"] or []):
        rp = ctx.save_replay(f, "c01-finding-%02d.json" % i)
        if f["property"] != "C01":
            continue
        ctx.violation("parse/%s/%s" % (f["level"], f["class"]),
                      "%s level: %r is delivered wrongly: %s" % (f["level"], f["raw"], "; ".join("%s want %s got %s" % (d["field"], d["want"], d["got"]) for d in f["diffs"][:3])), rp)
    # (b) random messages from large alphabets, validated by TLC
    n = 3000 if ctx.quick() else 40000
    d = ctx.subdir("irc-gen")
    tr = os.path.join(d, "trace.ndjson")
    rc2, out2 = ctx.run_drv(["irc-gen", "-n", str(n), "-seed", str(ctx.seed), "-out", tr])
    g = ctx.summary_line(out2)
    if rc2 != 0 or g is None:
        raise common.Inconclusive("random message generator failed (rc=%s): %s" % (rc2, out2[-1500:]))
    ok, msg, r = ctx.validate_trace("IrcLineTrace.tla", "IrcLineTrace.cfg", tr, what="random well-formed messages: Render/Expected validated per record", timeout=3600)
    if not ok:
        rp = ctx.save_replay(tr, "c01-random-rejected.ndjson")
        ctx.violation("parse/trace/nonconforming", "randomly drawn well-formed messages are not delivered as IrcLine.tla expects: " + msg[:600], rp)
    ctx.traces_validated = g["messages"] + g["delivered_over_connection"]
    ctx.samples = s["samples"][:2] + [{"random_components": g["sample"], "raw": g["sample_raw"]}]
    ctx.assumptions += ["generated messages stay inside the claim: U+0020 as only separator, one space after tags/source, CTCP payloads with text and no extra \\x01, upper-case CTCP verb, valid escapes, <= 14 middles, distinct tag keys",
                        "random messages are 7-bit (JSON transport); bytes >= 0x80 are exercised by C02's sweep only"]
    cov = {"evaluations": s["distinct_raw"] + s["connection_level_messages"] + g["messages"] + g["delivered_over_connection"],
           "distinct_nontrivial": s["distinct_raw"] + g["messages"],
           "rule": "TLC enumerates every combination of the component alphabets of MCIrcLine.tla (tags x source x verb x middles x trailing x spacing); one evaluation = one "
                   "message through ParseLine (+accessors) or through a connection; distinct = distinct raw texts; all are non-trivial (each has a distinct expected Line)",
           "exhaustive": True,
           "product_messages": s["messages"], "expected_cmd_counts": s["expected_cmd_counts"],
           "connection_level_messages": s["connection_level_messages"], "random_messages": g["messages"],
           "random_delivered_over_connection": g["delivered_over_connection"], "failure_classes": s["failure_classes"],
           "random_trace_accepted": ok}
    return common.finish(ctx, "model_checking", cov)


def replay(ctx, path):
    if path.endswith(".ndjson"):
        ok, msg, r = ctx.validate_trace("IrcLineTrace.tla", "IrcLineTrace.cfg", path)
        print("accepted" if ok else "REJECTED: " + msg)
        return 0 if ok else 1
    rc, out = ctx.run_drv(["irc-one", "-file", path])
    print(out)
    return rc
