"""C14 - tracker answers are private snapshots, and the tracker is safe to share.
(a) snapshot privacy on the model-based edge replay of Tracker.tla: every returned object is
    scribbled over and kept; the tracker's projection must still equal the model state, and no
    kept object may change when the tracker changes later;
(b) concurrent call histories of real trackers validated by TLC against TrackerTrace.tla, whose
    silent Lin(t) step makes acceptance = linearizability w.r.t. the relational model;
(c) supplement outside the technique: the same recorder built with -race (a data race without an
    observable effect is invisible to any trace specification)."""
import os
from . import common, c12


def run(ctx):
    n, depth = (300, 60) if ctx.quick() else (3000, 200)
    plan = [("attr", "MCTracker_attr.cfg", "2 names x 1 channel, every attribute kind; every edge replayed, every returned value scribbled", ()),
            ("sim", "MCTracker_sim.cfg", "random behaviours over 7 names x 5 channels, returned values scribbled",
             ("-simulate", "num=%d" % n, "-depth", str(depth), "-seed", str(ctx.seed)))]
    if not ctx.quick():
        plan.append(("quick-closure", "MCTracker_quick.cfg", "closure 3 names x 2 channels; scribbled", ()))
    res = []
    for name, cfg, what, extra in plan:
        s = c12.edge_run(ctx, cfg, what, extra=list(extra), scribble=True)
        res.append((name, s))
        if s["failures"]:
            # is it the scribbling that makes the replay fail?  Re-run the same edges leaving the returned values alone.
            clean = c12.edge_run(ctx, cfg, what + " (control run without scribbling)", extra=list(extra), scribble=False)
            if clean["failures"] == 0:
                c12.collect(ctx, s, "C14", all_kinds=True)
            else:
                ctx.notes["c12_failures_seen"] = "the replay also fails without scribbling (property C12's subject); only snapshot-specific failures are reported here"
                c12.collect(ctx, s, "C14")
    scrib = sum(s["values_scribbled"] for _, s in res)
    frozen = sum(s["frozen_value_rechecks"] for _, s in res)
    if scrib == 0 or frozen == 0:
        raise common.Inconclusive("vacuous: no returned value was scribbled / rechecked")
    # (b) linearizability
    hs = []
    plan = [("conc-3x8", 200, 3, 8), ("conc-8x30", 60, 8, 30)] if ctx.quick() else [("conc-3x8", 2000, 3, 8), ("conc-8x30", 600, 8, 30), ("conc-16x10", 400, 16, 10)]
    for name, n, th, ops in plan:
        h = c12.history_run(ctx, name, n, th, ops, False, what="concurrent histories %s validated for linearizability" % name)
        hs.append((name, h))
        if not h["accepted"]:
            rp = ctx.save_replay(h["trace"], "trk-%s-rejected.ndjson" % name)
            ctx.violation("trk/not-linearizable", "a recorded concurrent history has no linearization in Tracker.tla: " + h["msg"], rp)
    # (c) race detector supplement
    race = c12.history_run(ctx, "race", 100 if ctx.quick() else 1000, 8, 20, False, race=True, what="-race build of the recorder")
    race_found = "race" in race
    if race_found:
        rp = ctx.save_replay({"race_report": race["race"]}, "trk-race.json")
        ctx.violation("trk/data-race", "the race detector reported a data race between tracker calls", rp)
    ctx.samples = [x for _, s in res for x in (s.get("samples") or [])][:2] + [hs[0][1]["summary"].get("sample_history_calls")]
    ctx.traces_validated = sum(h["summary"]["histories"] for _, h in hs)
    ctx.assumptions += ["log order = real-time order: call events are appended (under one mutex) before the method is invoked, return events after it returned",
                        "data-race freedom itself is decided by the Go race detector on the executions that were run, not by TLA+"]
    calls = sum(h["summary"]["calls"] for _, h in hs)
    cov = {"evaluations": scrib + calls, "distinct_nontrivial": sum(s["state_changing_edges"] for _, s in res),
           "rule": "evaluations = returned values scribbled during the model-based replay + calls in concurrent histories; "
                   "non-trivial = replayed edges that change the model state (their returned snapshots are the ones that could alias live state)",
           "values_scribbled": scrib, "frozen_value_rechecks": frozen,
           "concurrent_histories": {n: {"histories": h["summary"]["histories"], "calls": h["summary"]["calls"], "accepted": h["accepted"], "tlc_states": h["tlc_states"]} for n, h in hs},
           "race_detector": {"ran": True, "race_reported": race_found, "histories": (race.get("summary") or {}).get("histories")}}
    return common.finish(ctx, "model_checking", cov)


def replay(ctx, path):
    if path.endswith(".ndjson"):
        ok, msg, r = ctx.validate_trace("TrackerTrace.tla", "TrackerTrace.cfg", path)
        print("accepted" if ok else "REJECTED: " + msg)
        return 0 if ok else 1
    return c12.replay(ctx, path)
