"""C05 - see lib/vcheck/phases.py and spec/Phases.tla."""
from . import phases


def run(ctx):
    return phases.run_phases(ctx, "C05", "the tracker reflects line k when any user handler for k runs, and no later line while a foreground handler runs")


def replay(ctx, path):
    return phases.replay(ctx, path)
