// Package netw replays the state graph of spec/Network.tla (a model IRC
// network generating protocol-conformant server events) on a real client and
// compares what the client holds with what the protocol has revealed (C13)
// and which nick it believes to have (C17).
package netw

import (
	"bufio"
	"bytes"
	"encoding/json"
	"flag"
	"fmt"
	"io"
	"os"
	"sort"
	"strconv"
	"strings"
	"sync"
	"time"

	"github.com/fluffle/goirc/client"
	"verifharness/sess"
	"verifharness/trk"
)

func obj(b json.RawMessage, into interface{}) error {
	t := strings.TrimSpace(string(b))
	if t == "[]" || t == "null" || t == "" {
		return nil
	}
	return json.Unmarshal(b, into)
}

type chanView struct {
	Topic string          `json:"topic"`
	Key   string          `json:"key"`
	Limit int             `json:"limit"`
	Flags string          `json:"flags"`
	Nicks json.RawMessage `json:"nicks"`
}

type viewRec struct {
	Trk   bool            `json:"trk"`
	Me    string          `json:"me"`
	Nicks json.RawMessage `json:"nicks"`
	Chans json.RawMessage `json:"chans"`
	Up    bool            `json:"up"`
}

type stateRec struct {
	Phase string `json:"phase"`
	Tried string `json:"tried"`
	Snick string `json:"snick"`
}

type opRec struct {
	Ev     string   `json:"ev"`
	Lines  []string `json:"lines"`
	Expect []string `json:"expect"`
}

type edge struct {
	F    json.RawMessage `json:"f"`
	O    opRec           `json:"o"`
	T    json.RawMessage `json:"t"`
	View viewRec         `json:"view"`
}

func key(b json.RawMessage) string {
	var o bytes.Buffer
	json.Compact(&o, b)
	return o.String()
}

type rig struct {
	s        *sess.Session
	tracking bool
	seen     int // wire lines already accounted for
	mu       sync.Mutex
	atConn   []string // Me().Nick as seen by a foreground CONNECTED handler, once per welcome
}

func newRig(tracking bool) (*rig, string) {
	r := &rig{tracking: tracking}
	r.s = sess.New(func(c *client.Config) { c.Me.Ident = "ident" })
	if tracking {
		r.s.C.EnableStateTracking()
	}
	// CONNECTED is delivered once the welcome has been applied: its handlers already see the nick the server uses
	r.s.C.HandleFunc(client.CONNECTED, func(c *client.Conn, l *client.Line) {
		n := "<nil>"
		if me := c.Me(); me != nil {
			n = me.Nick
		}
		r.mu.Lock()
		r.atConn = append(r.atConn, n)
		r.mu.Unlock()
	})
	if err := r.s.Connect(); err != nil {
		return nil, "connect: " + err.Error()
	}
	if _, ok := r.s.Srv.WaitLine("USER ", 0, 5*time.Second); !ok {
		return nil, "no registration burst"
	}
	l, _ := r.s.Srv.Lines()
	r.seen = len(l)
	if len(l) < 2 || l[len(l)-2] != "NICK me" {
		return r, fmt.Sprintf("registration burst %q does not end in NICK me, USER", l)
	}
	return r, ""
}

// newLines returns what the client wrote since the last call, without the PONGs of the harness' own syncs.
func (r *rig) newLines() []string {
	l, _ := r.s.Srv.Lines()
	var res []string
	for _, x := range l[r.seen:] {
		if !strings.HasPrefix(x, "PONG :sync-") {
			res = append(res, x)
		}
	}
	r.seen = len(l)
	return res
}

var universeNicks = buildUniverse()

// every nick the model can make the client or the users have: the pools and
// the chains of the default nick generator starting from them
func buildUniverse() []string {
	seen := map[string]bool{}
	var res []string
	for _, base := range []string{"a", "b", "c", "me2", "me", "mx", "Me", "_", "m", "mex", "A"} {
		n := base
		for i := 0; i < 14; i++ {
			if !seen[n] {
				seen[n] = true
				res = append(res, n)
			}
			n = client.DefaultNewNick(n)
		}
	}
	return res
}

var universeChans = []string{"#x", "#y"}

func privChars(l []string) string {
	sort.Strings(l)
	return strings.Join(l, "")
}

// apply performs one event; when check is set it compares the client with the model afterwards.
func (r *rig) apply(e *edge, check bool) string {
	var pre stateRec
	json.Unmarshal(e.T, &pre)
	o := &e.O
	switch o.Ev {
	case "clientnick":
		r.s.C.Nick(strings.TrimPrefix(o.Expect[0], "NICK "))
	case "connectagain":
		if err := r.s.C.Connect(); err == nil {
			return "C13: Connect on a connected client was not refused"
		}
	case "trackoff":
		if r.tracking {
			r.s.C.DisableStateTracking()
		}
	case "trackon":
		if r.tracking {
			r.s.C.EnableStateTracking()
		}
	default:
		if len(o.Lines) > 0 {
			r.s.Srv.SendLines(o.Lines...)
		}
	}
	if !r.s.Sync(5 * time.Second) {
		return "the client stopped answering PING after event " + o.Ev
	}
	got := r.newLines()
	if !check {
		return ""
	}
	var msgs []string
	// (a) what the client must answer with
	want := []string{}
	for _, x := range o.Expect {
		if r.tracking || strings.HasPrefix(x, "NICK ") {
			want = append(want, x)
		}
	}
	if len(got) != len(want) || (len(want) > 0 && strings.Join(got, "\n") != strings.Join(want, "\n")) {
		// the NICK answers are part of C17; the MODE / WHO requests of the tracker are not claimed by
		// any listed property (growth of the specification): a difference there is DRIFT, not a violation
		prop := "DRIFT"
		if o.Ev == "collide" || o.Ev == "nickrefuse" || o.Ev == "clientnick" {
			prop = "C17"
		}
		msgs = append(msgs, fmt.Sprintf("%s: after %s the client wrote %q, the model expects %q", prop, o.Ev, got, want))
	}
	// (b) C17: the client's own nick
	if o.Ev == "welcome" {
		r.mu.Lock()
		seen := append([]string{}, r.atConn...)
		r.atConn = nil
		r.mu.Unlock()
		if len(seen) != 1 || seen[0] != pre.Snick {
			msgs = append(msgs, fmt.Sprintf("C17: a CONNECTED handler saw Me().Nick = %q, the welcome line said %q", seen, pre.Snick))
		}
	}
	me := r.s.C.Me()
	cm := r.s.C.Config().Me
	wantNick := pre.Snick
	if pre.Phase == "pre" {
		wantNick = pre.Tried
	}
	if me == nil || cm == nil {
		msgs = append(msgs, fmt.Sprintf("C17: Me() == nil: %v, Config().Me == nil: %v", me == nil, cm == nil))
	} else if me.Nick != wantNick {
		msgs = append(msgs, fmt.Sprintf("C17: Me().Nick = %q but the server uses %q (event %s)", me.Nick, wantNick, o.Ev))
	}
	// (c) C13: the tracked state
	if r.tracking && !e.View.Trk && r.s.C.StateTracker() != nil {
		msgs = append(msgs, "DRIFT: StateTracker() is not nil although state tracking was disabled")
	}
	if r.tracking && e.View.Trk && r.s.C.StateTracker() == nil {
		msgs = append(msgs, "DRIFT: StateTracker() is nil although state tracking is enabled")
	} else if r.tracking && e.View.Trk && me != nil {
		st := r.s.C.StateTracker()
		gotV, err := trk.ViewOfTracker(st, universeNicks, universeChans)
		if err != nil {
			msgs = append(msgs, "C13: inconsistent tracker answers: "+err.Error())
		} else {
			wantV := trk.View{Me: wantNick, Nicks: map[string]trk.NickV{}, Chans: map[string]trk.ChanV{}}
			nicks := map[string][]string{}
			obj(e.View.Nicks, &nicks)
			chans := map[string]chanView{}
			obj(e.View.Chans, &chans)
			status := map[string]string{}
			wantV.Nicks[wantNick] = trk.NickV{Nick: wantNick, Chans: map[string]string{}}
			for n, inf := range nicks {
				wantV.Nicks[n] = trk.NickV{Nick: n, Ident: inf[0], Host: inf[1], Chans: map[string]string{}}
				status[n] = inf[2]
			}
			for c, cv := range chans {
				ms := map[string][]string{}
				obj(cv.Nicks, &ms)
				ch := trk.ChanV{Name: c, Topic: cv.Topic, Key: cv.Key, Limit: cv.Limit, Flags: cv.Flags, Nicks: map[string]string{}}
				for n, p := range ms {
					ch.Nicks[n] = privChars(p)
					if nv, ok := wantV.Nicks[n]; ok {
						nv.Chans[c] = privChars(p)
					}
				}
				wantV.Chans[c] = ch
			}
			// what the claim leaves open is normalised on both sides: user modes, real names,
			// the client's own user@host, user@host not (yet) confirmed by a WHO reply
			for n, nv := range gotV.Nicks {
				nv.Modes, nv.Name = "", ""
				w, known := wantV.Nicks[n]
				if n == wantNick {
					nv.Ident, nv.Host = "", ""
				} else if known {
					switch status[n] {
					case "may":
						if nv.Ident == "" && nv.Host == "" {
							w.Ident, w.Host = "", ""
							wantV.Nicks[n] = w
						}
					case "none":
						w.Ident, w.Host = "", ""
						wantV.Nicks[n] = w
					}
				}
				gotV.Nicks[n] = nv
			}
			for n, w := range wantV.Nicks {
				if status[n] == "none" || (status[n] == "may" && gotV.Nicks[n].Ident == "") {
					w.Ident, w.Host = "", ""
					wantV.Nicks[n] = w
				}
			}
			if gotV.Key() != wantV.Key() {
				msgs = append(msgs, fmt.Sprintf("C13: after %s the tracker holds %s, the protocol has revealed %s", o.Ev, gotV.Key(), wantV.Key()))
			}
		}
	}
	return strings.Join(msgs, " | ")
}

type node struct {
	parent string
	e      *edge
	root   bool
}

type Failure struct {
	Property string   `json:"property"`
	Tracking bool     `json:"tracking"`
	Path     []*edge  `json:"path"`
	Edge     *edge    `json:"edge"`
	Detail   string   `json:"detail"`
	Events   []string `json:"events"`
}

type Summary struct {
	Edges        int            `json:"edges"`
	States       int            `json:"states"`
	Sessions     int            `json:"sessions"`
	Events       map[string]int `json:"event_counts"`
	Failures     int            `json:"failures"`
	Files        []string       `json:"failure_files"`
	Samples      []interface{}  `json:"samples"`
	Unplaced     int            `json:"edges_with_unknown_source"`
	Tracking     bool           `json:"tracking"`
	WallS        float64        `json:"wall_s"`
	Drift        int            `json:"drift"`
	DriftExample string         `json:"drift_example"`
}

func pathTo(nodes map[string]*node, k string) []*edge {
	var p []*edge
	for {
		n := nodes[k]
		if n == nil || n.root {
			break
		}
		p = append(p, n.e)
		k = n.parent
	}
	for i, j := 0, len(p)-1; i < j; i, j = i+1, j-1 {
		p[i], p[j] = p[j], p[i]
	}
	return p
}

// RunEdges reads TLC output of MCNetwork on stdin.
func RunEdges(args []string) int {
	fs := flag.NewFlagSet("net-edges", flag.ExitOnError)
	out := fs.String("out", ".", "directory for failure artefacts")
	notrack := fs.Bool("notracking", false, "run the client without state tracking (C17 only)")
	replay := fs.String("replay", "", "re-run a failure artefact")
	fs.Parse(args)
	if *replay != "" {
		return runReplay(*replay)
	}
	start := time.Now()
	sum := Summary{Events: map[string]int{}, Tracking: !*notrack}
	nodes := map[string]*node{}
	var cur *rig
	curKey := ""
	defer func() {
		if cur != nil {
			cur.s.Close()
		}
	}()
	var pending []*edge
	do := func(e *edge) bool {
		fk, tk := key(e.F), key(e.T)
		var fs stateRec
		json.Unmarshal(e.F, &fs)
		if _, ok := nodes[fk]; !ok {
			var full map[string]interface{}
			json.Unmarshal(e.F, &full)
			if st, _ := full["steps"].(float64); st == 0 {
				nodes[fk] = &node{root: true} // an initial state
				sum.States++
			} else {
				return false
			}
		}
		if _, ok := nodes[tk]; !ok {
			nodes[tk] = &node{parent: fk, e: e}
			sum.States++
		}
		sum.Edges++
		sum.Events[e.O.Ev]++
		if cur == nil || curKey != fk {
			if cur != nil {
				cur.s.Close()
			}
			var msg string
			cur, msg = newRig(!*notrack)
			sum.Sessions++
			if cur == nil || msg != "" {
				fmt.Println("MISMATCH at connect:", msg)
				sum.Failures++
				if cur != nil {
					cur.s.Close()
				}
				cur = nil
				return true
			}
			for _, pe := range pathTo(nodes, fk) {
				if m := cur.apply(pe, false); m != "" {
					cur.s.Close()
					cur = nil
					return true // the path itself no longer works: reported when its edge was replayed
				}
			}
		}
		msg := cur.apply(e, true)
		curKey = tk
		if len(sum.Samples) < 3 && len(e.O.Lines) > 2 {
			sum.Samples = append(sum.Samples, map[string]interface{}{"event": e.O, "view_after": e.View})
		}
		if msg != "" && !strings.Contains(msg, "C13") && !strings.Contains(msg, "C17") {
			// only differences outside the listed properties
			sum.Drift++
			if sum.DriftExample == "" {
				sum.DriftExample = msg
			}
			msg = ""
		}
		if msg != "" {
			sum.Failures++
			if sum.Failures <= 6 {
				prop := "C13"
				if strings.HasPrefix(msg, "C17") {
					prop = "C17"
				}
				var evs []string
				for _, pe := range pathTo(nodes, fk) {
					evs = append(evs, pe.O.Ev)
				}
				f := Failure{Property: prop, Tracking: !*notrack, Path: pathTo(nodes, fk), Edge: e, Detail: msg, Events: append(evs, e.O.Ev)}
				name := fmt.Sprintf("%s/net-fail-%03d.json", *out, sum.Failures)
				b, _ := json.MarshalIndent(f, "", " ")
				if os.WriteFile(name, b, 0o644) == nil {
					sum.Files = append(sum.Files, name)
				}
				fmt.Printf("MISMATCH %s\n", msg)
			}
			cur.s.Close()
			cur = nil
		}
		return true
	}
	in := bufio.NewReaderSize(os.Stdin, 1<<22)
	for {
		line, err := in.ReadString('\n')
		if strings.HasPrefix(line, "\"EDGE ") {
			s, uerr := strconv.Unquote(strings.TrimSpace(line))
			if uerr != nil {
				fmt.Fprintln(os.Stderr, uerr)
				return 2
			}
			e := &edge{}
			if jerr := json.Unmarshal([]byte(s[5:]), e); jerr != nil {
				fmt.Fprintf(os.Stderr, "cannot parse edge: %v: %.300s\n", jerr, s)
				return 2
			}
			if sum.Failures >= 25 {
				continue // enough evidence; skip the remaining edges
			}
			if !do(e) {
				pending = append(pending, e)
			}
		} else if len(line) > 0 {
			fmt.Print("TLC: " + line)
		}
		if err == io.EOF {
			break
		}
		if err != nil {
			return 2
		}
	}
	for progress := true; progress && len(pending) > 0; {
		progress = false
		var rest []*edge
		for _, e := range pending {
			if do(e) {
				progress = true
			} else {
				rest = append(rest, e)
			}
		}
		pending = rest
	}
	sum.Unplaced = len(pending)
	sum.WallS = time.Since(start).Seconds()
	b, _ := json.Marshal(sum)
	fmt.Println("SUMMARY " + string(b))
	if sum.Failures > 0 {
		return 1
	}
	return 0
}

func runReplay(file string) int {
	b, err := os.ReadFile(file)
	if err != nil {
		fmt.Println(err)
		return 2
	}
	var f Failure
	if json.Unmarshal(b, &f) != nil {
		return 2
	}
	r, msg := newRig(f.Tracking)
	if r == nil || msg != "" {
		fmt.Println(msg)
		return 1
	}
	defer r.s.Close()
	for _, e := range f.Path {
		fmt.Printf("  %s %q\n", e.O.Ev, e.O.Lines)
		r.apply(e, false)
	}
	m := r.apply(f.Edge, true)
	fmt.Printf("EVENT %s %q\n  -> %s\n", f.Edge.O.Ev, f.Edge.O.Lines, m)
	if m != "" {
		return 1
	}
	return 0
}
