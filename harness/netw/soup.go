package netw

import (
	"bufio"
	"encoding/json"
	"flag"
	"fmt"
	"math/rand"
	"os"
	"sort"
	"time"

	"github.com/fluffle/goirc/client"
	"verifharness/cmds"
	"verifharness/sess"
	"verifharness/trk"
)

// arbitrary (not necessarily conformant) lines over a small universe
func soupLines() []string {
	srcs := []string{"", ":irc ", ":me!i@h ", ":a!ia@ha ", ":b!ib@hb ", ":zz!q@q "}
	nicks := []string{"me", "a", "b", "zz"}
	chans := []string{"#x", "#y"}
	var res []string
	add := func(f string, a ...interface{}) { res = append(res, fmt.Sprintf(f, a...)) }
	for _, s := range srcs {
		for _, c := range chans {
			add("%sJOIN %s", s, c)
			add("%sPART %s", s, c)
			add("%sTOPIC %s :t", s, c)
			add("%sMODE %s +o-v a b", s, c)
			add("%sMODE %s +k", s, c)
			add("%sMODE %s +bo *!*@bad.host a", s, c)
			add("%sMODE %s -e+v b b", s, c)
			add("%sMODE %s +b", s, c)
			for _, n := range nicks {
				add("%sKICK %s %s :x", s, c, n)
				add("%sMODE %s +o %s", s, c, n)
			}
		}
		add("%sQUIT :x", s)
		for _, n := range nicks {
			add("%sNICK %s", s, n)
			add("%sMODE %s +i", s, n)
		}
		add("%sNICK :new1", s)
	}
	for _, c := range chans {
		add(":irc 353 me = %s :me @a +b", c)
		add(":irc 353 me = %s :zz", c)
		add(":irc 353 me = %s :", c)
		add(":irc 324 me %s +ntk key", c)
		add(":irc 332 me %s :topic", c)
		for _, n := range nicks {
			add(":irc 352 me %s id ho irc %s H@ :0 real", c, n)
		}
	}
	for _, n := range nicks {
		add(":irc 311 me %s id ho * :real", n)
		add(":irc 671 me %s :secure", n)
		add(":irc 433 * %s :in use", n)
		add(":irc 001 %s :Welcome %s!i@h", n, n)
	}
	sort.Strings(res)
	return res
}

type soupRec struct {
	Kind  string `json:"kind"`
	Line  string `json:"line"`
	Me    string `json:"me"`
	Nicks []struct {
		N     string   `json:"n"`
		Chans []string `json:"chans"`
	} `json:"nicks"`
	Chans []struct {
		C       string   `json:"c"`
		Members []string `json:"members"`
	} `json:"chans"`
}

func project(line string, c *client.Conn) (soupRec, error) {
	r := soupRec{Kind: "soup", Line: line}
	json.Unmarshal([]byte(`{"nicks":[],"chans":[]}`), &r) // empty, not nil: JSON [] rather than null
	st := c.StateTracker()
	me := st.Me()
	if me == nil {
		return r, fmt.Errorf("Me() nil")
	}
	r.Me = me.Nick
	names := append([]string{}, universeNicks...)
	names = append(names, "zz", "new1", "new2", me.Nick)
	seen := map[string]bool{}
	for _, n := range names {
		if seen[n] {
			continue
		}
		seen[n] = true
		if nk := st.GetNick(n); nk != nil {
			var cs []string
			for ch := range nk.Channels {
				cs = append(cs, ch)
			}
			sort.Strings(cs)
			if cs == nil {
				cs = []string{}
			}
			r.Nicks = append(r.Nicks, struct {
				N     string   `json:"n"`
				Chans []string `json:"chans"`
			}{n, cs})
		}
	}
	for _, cn := range universeChans {
		if ch := st.GetChannel(cn); ch != nil {
			var ms []string
			for n := range ch.Nicks {
				ms = append(ms, n)
			}
			sort.Strings(ms)
			if ms == nil {
				ms = []string{}
			}
			r.Chans = append(r.Chans, struct {
				C       string   `json:"c"`
				Members []string `json:"members"`
			}{cn, ms})
		}
	}
	return r, nil
}

// RunSoup feeds arbitrary lines to a tracked client and records the tracker's
// projection after each; also sweeps the default nick generator.
func RunSoup(args []string) int {
	fs := flag.NewFlagSet("net-soup", flag.ExitOnError)
	out := fs.String("out", "trace.ndjson", "trace file")
	pairs := fs.Bool("pairs", true, "all sequences of two lines after a standard prefix")
	nrand := fs.Int("random", 200, "random soups")
	rlen := fs.Int("len", 40, "length of a random soup")
	seed := fs.Int64("seed", 1, "seed")
	fs.Parse(args)
	f, err := os.Create(*out)
	if err != nil {
		return 2
	}
	defer f.Close()
	w := bufio.NewWriterSize(f, 1<<20)
	defer w.Flush()
	emit := func(v interface{}) {
		b, _ := json.Marshal(v)
		w.Write(cmds.ASCIIJSON(b))
		w.WriteByte('\n')
	}
	rng := rand.New(rand.NewSource(*seed))
	lines := soupLines()
	recs, sessions := 0, 0
	run := func(seq []string) error {
		s := sess.New(nil)
		defer s.Close()
		s.C.EnableStateTracking()
		if err := s.Connect(); err != nil {
			return err
		}
		if !s.Welcome("me", 5*time.Second) {
			return fmt.Errorf("no registration")
		}
		sessions++
		for _, l := range seq {
			s.Srv.SendLines(l)
			if !s.Sync(5 * time.Second) {
				return fmt.Errorf("client stopped answering after %q", l)
			}
			r, err := project(l, s.C)
			if err != nil {
				return err
			}
			emit(r)
			recs++
		}
		return nil
	}
	prefix := []string{":me!i@h JOIN #x", ":irc 353 me = #x :me @a b"}
	if *pairs {
		// every single line after the prefix, in one long session each ... and every pair
		for i, a := range lines {
			seq := append(append([]string{}, prefix...), a)
			// pairs: a then each b of a rotating window (keeps the run short but covers every (a, b) over the seeds)
			for k := 0; k < 12; k++ {
				seq = append(seq, lines[(i*7+k*13+int(*seed))%len(lines)])
			}
			if err := run(seq); err != nil {
				fmt.Println("INCOMPLETE", err)
				return 3
			}
		}
	}
	for i := 0; i < *nrand; i++ {
		var seq []string
		for k := 0; k < *rlen; k++ {
			seq = append(seq, lines[rng.Intn(len(lines))])
		}
		if err := run(seq); err != nil {
			fmt.Println("INCOMPLETE", err)
			return 3
		}
	}
	// the default nick generator: every last byte x several prefixes (bytes as U+0000..U+00FF)
	nn := 0
	for _, p := range []string{"", "a", "nick", "x_", "\xff\x00", "bot1", "9", "user99", "z}", "0"} {
		for b := 0; b < 256; b++ {
			old := p + string([]byte{byte(b)})
			neu := client.DefaultNewNick(old)
			emit(map[string]string{"kind": "newnick", "old": lat(old), "new": lat(neu)})
			nn++
		}
	}
	b, _ := json.Marshal(map[string]interface{}{"soup_records": recs, "sessions": sessions, "distinct_lines": len(lines), "newnick_records": nn})
	fmt.Println("SUMMARY " + string(b))
	return 0
}

func lat(s string) string {
	r := make([]rune, len(s))
	for i := 0; i < len(s); i++ {
		r[i] = rune(s[i])
	}
	return string(r)
}

var _ = trk.View{}
