// Package flood binds spec/Flood.tla to the client's rate limiter (C10): the
// edges of the model's state graph are replayed on the real rateLimit, and
// timed end-to-end sessions are recorded for FloodTrace.tla.
package flood

import (
	"bufio"
	"encoding/json"
	"flag"
	"fmt"
	"io"
	"os"
	"strconv"
	"strings"
	"sync"
	"time"

	"github.com/fluffle/goirc/client"
	"verifharness/sess"
)

type edgeRec struct {
	Chars   int  `json:"chars"`
	Before  int  `json:"before"`
	Elapsed int  `json:"elapsed"`
	After   int  `json:"after"`
	Held    bool `json:"held"`
	Sleep   int  `json:"sleep"`
}

func ticks(n int) time.Duration { return time.Duration(n) * time.Second / 120 }

// RunEdges: stdin = TLC output of MCFlood_edges.
func RunEdges(args []string) int {
	fs := flag.NewFlagSet("flood-edges", flag.ExitOnError)
	out := fs.String("out", ".", "directory for failure artefacts")
	fs.Parse(args)
	c := client.SimpleClient("me")
	in := bufio.NewReaderSize(os.Stdin, 1<<20)
	n, held, fails := 0, 0, 0
	var files []string
	var sample interface{}
	for {
		line, rerr := in.ReadString('\n')
		if strings.HasPrefix(line, "\"EDGE ") {
			s, uerr := strconv.Unquote(strings.TrimSpace(line))
			if uerr != nil {
				return 2
			}
			var e edgeRec
			if json.Unmarshal([]byte(s[5:]), &e) != nil {
				return 2
			}
			n++
			if e.Held {
				held++
			}
			// half a tick away from every decision boundary: the microseconds of real time that
			// pass inside rateLimit cannot flip a decision of the integer-tick model
			client.VerifSetFloodState(c, ticks(e.Before), time.Now().Add(-ticks(e.Elapsed)))
			d := client.VerifRateLimit(c, e.Chars)
			bad, _ := client.VerifFloodState(c)
			want := time.Duration(0)
			if e.Held {
				want = 2*time.Second + time.Duration(e.Chars)*time.Second/120
			}
			diff := bad - ticks(e.After)
			if diff < 0 {
				diff = -diff
			}
			if d != want || diff > 2*time.Millisecond {
				fails++
				if fails <= 5 {
					name := fmt.Sprintf("%s/flood-fail-%03d.json", *out, fails)
					b, _ := json.Marshal(map[string]interface{}{"property": "C10", "edge": e, "returned_ns": int64(d), "expected_ns": int64(want),
						"penalty_after_ns": int64(bad), "expected_penalty_ns": int64(ticks(e.After))})
					if os.WriteFile(name, b, 0o644) == nil {
						files = append(files, name)
					}
					fmt.Printf("MISMATCH %+v: returned %v want %v, penalty %v want %v\n", e, d, want, bad, ticks(e.After))
				}
			}
			if sample == nil && e.Held && e.Elapsed > 100 {
				sample = e
			}
		} else if len(line) > 0 {
			fmt.Print("TLC: " + line)
		}
		if rerr == io.EOF {
			break
		}
		if rerr != nil {
			return 2
		}
	}
	b, _ := json.Marshal(map[string]interface{}{"edges": n, "held_edges": held, "failures": fails, "failure_files": files, "sample": sample})
	fmt.Println("SUMMARY " + string(b))
	if fails > 0 {
		return 1
	}
	return 0
}

type lineRec struct {
	Chars   int   `json:"chars"`
	Elapsed int64 `json:"elapsed"`
	Badness int64 `json:"badness"`
	Rl      int64 `json:"rl"`
	W       int64 `json:"w"`
	Issued  int64 `json:"issued"`
}

type sessRec struct {
	Flood bool      `json:"flood"`
	B0    int64     `json:"b0"`
	Lines []lineRec `json:"lines"`
	Name  string    `json:"name"`
	// NoWindow: unaccounted lines were written in between, the window bound does not apply to this record
	NoWindow bool `json:"nowindow"`
}

// timed runs one session: nlines lines of the given lengths, the penalty preset
// to b0, gaps between the sends; all times in microseconds since the start.
func timed(name string, floodOff bool, b0 time.Duration, lens []int, gaps []time.Duration, toggle bool) (*sessRec, error) {
	return timedOff(name, floodOff, b0, lens, gaps, toggle, nil)
}

// timedOff: the lines whose index is in off are sent while Config.Flood is set (protection off); the
// session record then holds only the accounted lines (in order), whose arithmetic must still be the rule's.
func timedOff(name string, floodOff bool, b0 time.Duration, lens []int, gaps []time.Duration, toggle bool, off map[int]bool) (*sessRec, error) {
	var mu sync.Mutex
	type rl struct {
		chars          int
		elapsed, badns time.Duration
		at             time.Time
	}
	var rls []rl
	client.VerifHook = func(ev string, c *client.Conn, a ...interface{}) {
		if ev == "write.rl" {
			mu.Lock()
			rls = append(rls, rl{a[0].(int), a[1].(time.Duration), a[2].(time.Duration), a[3].(time.Time)})
			mu.Unlock()
		}
	}
	defer func() { client.VerifHook = nil }()
	s := sess.New(func(c *client.Config) { c.Flood = true })
	defer s.Close()
	if err := s.Connect(); err != nil {
		return nil, err
	}
	if !s.Welcome("me", 5*time.Second) {
		return nil, fmt.Errorf("no registration")
	}
	if strings.Contains(name, "after a reconnect") {
		// the same client, second connection: whatever the first one's teardown left behind must not matter
		disc := make(chan struct{}, 2)
		s.C.HandleFunc(client.DISCONNECTED, func(*client.Conn, *client.Line) { disc <- struct{}{} })
		go s.C.Close()
		select {
		case <-disc:
		case <-time.After(5 * time.Second):
			return nil, fmt.Errorf("no DISCONNECTED")
		}
		if err := s.Connect(); err != nil {
			return nil, err
		}
		if !s.Welcome("me", 5*time.Second) {
			return nil, fmt.Errorf("no registration on the second connection")
		}
		mu.Lock()
		rls = nil
		mu.Unlock()
	}
	// the send goroutine is idle now: preset the penalty and switch protection on
	t0 := time.Now()
	client.VerifSetFloodState(s.C, b0, t0)
	s.Cfg.Flood = floodOff
	base := len(s.Srv.Writes())
	rec := &sessRec{Flood: floodOff, B0: b0.Microseconds(), Name: name}
	issued := make([]time.Time, len(lens))
	for i, n := range lens {
		if i < len(gaps) && gaps[i] > 0 {
			time.Sleep(gaps[i])
		}
		if toggle && i == len(lens)/2 {
			// toggled from user code while the connection is idle
			s.Sync(30 * time.Second)
			s.Cfg.Flood = !s.Cfg.Flood
		}
		if off != nil && (off[i] != s.Cfg.Flood) {
			// wait until everything issued so far has been written, then switch
			dl := time.Now().Add(60 * time.Second)
			for len(s.Srv.Writes())-base < i && time.Now().Before(dl) {
				time.Sleep(time.Millisecond)
			}
			s.Cfg.Flood = off[i]
		}
		line := "PRIVMSG #c :" + strings.Repeat("x", n)
		if n < 12 {
			line = strings.Repeat("Z", n)
		}
		if strings.Contains(name, "PASS line") {
			// (a line that starts like the one whose log record is masked: it is charged by its real length)
			line = "PASS " + strings.Repeat("x", n)
		}
		if strings.Contains(name, "multi-byte") && n >= 12 {
			// n bytes of payload made of two-byte characters: the charge is per byte on the wire
			line = "PRIVMSG #c :" + strings.Repeat("\u00fc", n/2)
		}
		issued[i] = time.Now()
		s.C.Raw(line)
	}
	want := len(lens)
	deadline := time.Now().Add(time.Duration(len(lens))*7*time.Second + 10*time.Second)
	for len(s.Srv.Writes())-base < want && time.Now().Before(deadline) {
		time.Sleep(time.Millisecond)
	}
	ws := s.Srv.Writes()[base:]
	if len(ws) < want {
		return nil, fmt.Errorf("only %d of %d lines were written", len(ws), want)
	}
	mu.Lock()
	defer mu.Unlock()
	if toggle {
		return nil, nil // toggling sessions are only checked for completion
	}
	if off != nil {
		// accounted lines only: match the accounting events to the protected lines in order
		k := 0
		for i := 0; i < want; i++ {
			if off[i] {
				if d := ws[i].At.Sub(issued[i]); d > time.Second {
					return nil, fmt.Errorf("a line sent with protection off was delayed by %v", d)
				}
				continue
			}
			if k >= len(rls) {
				return nil, fmt.Errorf("no accounting event for protected line %d", i)
			}
			lr := lineRec{Chars: len(ws[i].Data) - 2, W: ws[i].At.Sub(t0).Microseconds(), Issued: issued[i].Sub(t0).Microseconds(),
				Elapsed: rls[k].elapsed.Microseconds(), Badness: rls[k].badns.Microseconds(), Rl: rls[k].at.Sub(t0).Microseconds()}
			k++
			rec.Lines = append(rec.Lines, lr)
		}
		rec.NoWindow = true
		return rec, nil
	}
	if !floodOff && len(rls) < want {
		return nil, fmt.Errorf("%d accounting events for %d lines", len(rls), want)
	}
	for i := 0; i < want; i++ {
		lr := lineRec{Chars: len(ws[i].Data) - 2, W: ws[i].At.Sub(t0).Microseconds(), Issued: issued[i].Sub(t0).Microseconds()}
		if !floodOff {
			lr.Elapsed, lr.Badness, lr.Rl = rls[i].elapsed.Microseconds(), rls[i].badns.Microseconds(), rls[i].at.Sub(t0).Microseconds()
			// (whether the accounting was for this many bytes shows in the arithmetic TLC checks: badness after the line)
		}
		rec.Lines = append(rec.Lines, lr)
	}
	if floodOff && len(rls) > 0 {
		rec.Lines[0].Rl = 1 // accounting happened although protection is off
	}
	return rec, nil
}

// RunTimed records timed sessions for FloodTrace.tla.
func RunTimed(args []string) int {
	fs := flag.NewFlagSet("flood-timed", flag.ExitOnError)
	out := fs.String("out", "trace.ndjson", "trace file")
	tier := fs.String("tier", "quick", "quick|thorough")
	fs.Parse(args)
	f, err := os.Create(*out)
	if err != nil {
		return 2
	}
	defer f.Close()
	w := bufio.NewWriter(f)
	defer w.Flush()
	type plan struct {
		name  string
		off   bool
		b0    time.Duration
		lens  []int
		gaps  []time.Duration
		toggl bool
	}
	ms := time.Millisecond
	plans := []plan{
		{"near-threshold burst", false, 9500 * ms, []int{20, 0, 100}, nil, false},
		{"from zero, short burst", false, 0, []int{10, 10, 10, 10}, nil, false},
		{"multi-byte line near the threshold", false, 9000 * ms, []int{100}, nil, false},
		{"long PASS line near the threshold", false, 7500 * ms, []int{300}, nil, false},
		{"near-threshold burst after a reconnect", false, 9500 * ms, []int{20, 0}, nil, false},
		{"protection off", true, 0, []int{400, 400, 400, 400, 400, 400, 400, 400, 400, 400, 400, 400}, nil, false},
	}
	if *tier == "thorough" {
		plans = append(plans,
			plan{"from zero over the threshold", false, 0, []int{0, 60, 200, 510, 0, 120, 60, 30}, nil, false},
			plan{"decay in gaps", false, 8000 * ms, []int{100, 100, 100, 100, 100}, []time.Duration{0, 1500 * ms, 0, 2500 * ms, 0}, false},
			plan{"long idle after a held line", false, 11000 * ms, []int{510, 10, 10}, []time.Duration{0, 10100 * ms, 0}, false},
			plan{"toggled on and off", false, 9000 * ms, []int{10, 10, 10, 10, 10, 10}, nil, true})
	}
	var wg sync.WaitGroup
	res := make([]*sessRec, len(plans))
	errs := make([]error, len(plans))
	// the hook is global: sessions run one after the other
	for i, p := range plans {
		res[i], errs[i] = timed(p.name, p.off, p.b0, p.lens, p.gaps, p.toggl)
	}
	// protection switched off for two lines in the middle: the penalty must neither be charged nor forgotten
	tg, tgErr := timedOff("toggled: on, off for two lines, on again", false, 8000*ms, []int{10, 10, 10, 10}, nil, false, map[int]bool{1: true, 2: true})
	res = append(res, tg)
	errs = append(errs, tgErr)
	plans = append(plans, plan{name: "toggled"})
	wg.Wait()
	n, lines, heldLines := 0, 0, 0
	var sample interface{}
	for i, r := range res {
		if errs[i] != nil {
			fmt.Println("INCOMPLETE", plans[i].name, errs[i])
			return 3
		}
		if r == nil {
			continue
		}
		b, _ := json.Marshal(r)
		w.Write(b)
		w.WriteByte('\n')
		n++
		lines += len(r.Lines)
		for _, l := range r.Lines {
			if l.Badness > 10000000 {
				heldLines++
			}
		}
		if sample == nil {
			sample = r
		}
	}
	b, _ := json.Marshal(map[string]interface{}{"sessions": n, "lines": lines, "held_lines": heldLines, "sample": sample})
	fmt.Println("SUMMARY " + string(b))
	return 0
}
