// Package sess runs a real client.Conn against a fakenet server.
package sess

import (
	"fmt"
	"os"
	"runtime"
	"strings"
	"sync"
	"sync/atomic"
	"time"

	"github.com/fluffle/goirc/client"
	"verifharness/fakenet"
)

// Session is one client object and the network it dials into.
type Session struct {
	Net  *fakenet.Network
	C    *client.Conn
	Cfg  *client.Config
	Srv  *fakenet.Conn // server side of the current (latest) connection
	sync int32
}

// New creates a client with harness defaults: no flood control, no client
// pings, nick "me".
func New(mod func(*client.Config)) *Session {
	n := fakenet.NewNetwork()
	cfg := client.NewConfig("me", "ident", "Real Name")
	cfg.Server = "irc.example.net:6667"
	cfg.Proxy = n.URL()
	cfg.Flood = true
	cfg.PingFreq = 0
	cfg.Timeout = 5 * time.Second
	if mod != nil {
		mod(cfg)
	}
	return &Session{Net: n, C: client.Client(cfg), Cfg: cfg}
}

// Connect calls Connect and picks up the new server side.
func (s *Session) Connect() error {
	before := len(s.Net.Dials())
	err := s.C.Connect()
	d := s.Net.Dials()
	if len(d) > before && d[len(d)-1].Conn != nil && err == nil {
		s.Srv = d[len(d)-1].Conn
	}
	return err
}

// LatestSrv refreshes Srv from the network's dial log (for reconnects made
// by handlers).
func (s *Session) LatestSrv() *fakenet.Conn {
	d := s.Net.Dials()
	for i := len(d) - 1; i >= 0; i-- {
		if d[i].Conn != nil {
			s.Srv = d[i].Conn
			break
		}
	}
	return s.Srv
}

// Sync sends a PING with a fresh token and waits for the PONG: when it
// returns true every line sent before has been dispatched completely
// (internal and foreground handlers) by the event loop.
func (s *Session) Sync(timeout time.Duration) bool {
	tok := fmt.Sprintf("sync-%d", atomic.AddInt32(&s.sync, 1))
	l, _ := s.Srv.Lines()
	s.Srv.SendLines("PING :" + tok)
	_, ok := s.Srv.WaitLine("PONG :"+tok, len(l), timeout)
	return ok
}

// Welcome completes registration: waits for USER, sends 001 for nick, syncs.
func (s *Session) Welcome(nick string, timeout time.Duration) bool {
	if _, ok := s.Srv.WaitLine("USER ", 0, timeout); !ok {
		return false
	}
	s.Srv.SendLines(":irc.example.net 001 " + nick + " :Welcome to the fake network " + nick + "!ident@client.host")
	return s.Sync(timeout)
}

// Close closes the client (if connected) and releases the network.
func (s *Session) Close() {
	done := make(chan struct{})
	go func() { s.C.Close(); close(done) }()
	select {
	case <-done:
	case <-time.After(3 * time.Second):
	}
	s.Net.Release()
}

// ---- goroutine accounting ---------------------------------------------------

// LibGoroutines returns the stacks of goroutines that are executing goirc
// client code (frames in github.com/fluffle/goirc/client).
func LibGoroutines() []string {
	buf := make([]byte, 1<<22)
	n := runtime.Stack(buf, true)
	var res []string
	for _, g := range strings.Split(string(buf[:n]), "\n\n") {
		if strings.Contains(g, "github.com/fluffle/goirc/client.") {
			res = append(res, g)
		}
	}
	return res
}

// WaitNoLibGoroutines waits until no goroutine runs library code.
func WaitNoLibGoroutines(timeout time.Duration) []string {
	deadline := time.Now().Add(timeout)
	for {
		g := LibGoroutines()
		if len(g) == 0 || time.Now().After(deadline) {
			return g
		}
		time.Sleep(2 * time.Millisecond)
	}
}

// ---- crash journal ------------------------------------------------------------

// Journal names the case in flight so that a dying process leaves a trace.
type Journal struct {
	mu sync.Mutex
	f  *os.File
}

func OpenJournal(path string) *Journal {
	if path == "" {
		return &Journal{}
	}
	f, err := os.OpenFile(path, os.O_CREATE|os.O_WRONLY|os.O_APPEND, 0o644)
	if err != nil {
		return &Journal{}
	}
	return &Journal{f: f}
}

func (j *Journal) Note(s string) {
	if j.f == nil {
		return
	}
	j.mu.Lock()
	j.f.WriteString(s + "\n")
	j.mu.Unlock()
}
