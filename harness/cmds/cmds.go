// Package cmds binds spec/Commands.tla to the exported command methods:
// calls enumerated by TLC (or drawn at random) are executed on a connected
// client and the bytes received by the server for each call are recorded
// for validation by TLC (C08, C11).
package cmds

import (
	"bufio"
	"bytes"
	"encoding/json"
	"flag"
	"fmt"
	"io"
	"math/rand"
	"os"
	"strconv"
	"strings"
	"time"

	"github.com/fluffle/goirc/client"
	"verifharness/sess"
)

// Call as emitted by MCCommands!Emit; strings carry bytes as U+0000..U+00FF.
type Call struct {
	M  string   `json:"m"`
	A  []string `json:"a"`
	SL int      `json:"sl"`
}

// Rec is one record of the trace validated by CommandsTrace.tla.
type Rec struct {
	M       string   `json:"m"`
	A       []string `json:"a"`
	SL      int      `json:"sl"`
	QuitMsg string   `json:"quitmsg"`
	Wire    string   `json:"wire"`
}

// latin1 <-> bytes
func toBytes(s string) string {
	b := make([]byte, 0, len(s))
	for _, r := range s {
		b = append(b, byte(r))
	}
	return string(b)
}

func fromBytes(s string) string {
	r := make([]rune, len(s))
	for i := 0; i < len(s); i++ {
		r[i] = rune(s[i])
	}
	return string(r)
}

// ASCIIJSON escapes every non-ASCII rune of marshalled JSON as \u00XX, so that
// the trace does not depend on the platform charset of the JVM that reads it.
func ASCIIJSON(b []byte) []byte {
	var o bytes.Buffer
	for _, r := range string(b) {
		if r < 0x80 {
			o.WriteByte(byte(r))
		} else {
			fmt.Fprintf(&o, "\\u%04x", r)
		}
	}
	return o.Bytes()
}

func ifaces(a []string) []interface{} {
	r := make([]interface{}, len(a))
	for i, x := range a {
		r[i] = x
	}
	return r
}

// invoke performs the call; arguments are byte strings.
func invoke(c *client.Conn, m string, a []string) {
	switch m {
	case "Raw":
		c.Raw(a[0])
	case "Pass":
		c.Pass(a[0])
	case "Nick":
		c.Nick(a[0])
	case "User":
		c.User(a[0], a[1])
	case "Join":
		c.Join(a[0], a[1:]...)
	case "Part":
		c.Part(a[0], a[1:]...)
	case "Kick":
		c.Kick(a[0], a[1], a[2:]...)
	case "Quit":
		c.Quit(a...)
	case "Whois":
		c.Whois(a[0])
	case "Who":
		c.Who(a[0])
	case "Privmsg":
		c.Privmsg(a[0], a[1])
	case "Privmsgln":
		c.Privmsgln(a[0], ifaces(a[1:])...)
	case "Privmsgf":
		c.Privmsgf(a[0], a[1], ifaces(a[2:])...)
	case "Notice":
		c.Notice(a[0], a[1])
	case "Ctcp":
		c.Ctcp(a[0], a[1], a[2:]...)
	case "CtcpReply":
		c.CtcpReply(a[0], a[1], a[2:]...)
	case "Version":
		c.Version(a[0])
	case "Action":
		c.Action(a[0], a[1])
	case "Topic":
		c.Topic(a[0], a[1:]...)
	case "Mode":
		c.Mode(a[0], a[1:]...)
	case "Away":
		c.Away(a...)
	case "Invite":
		c.Invite(a[0], a[1])
	case "Oper":
		c.Oper(a[0], a[1])
	case "VHost":
		c.VHost(a[0], a[1])
	case "Ping":
		c.Ping(a[0])
	case "Pong":
		c.Pong(a[0])
	case "Cap":
		c.Cap(a[0], a[1:]...)
	case "Authenticate":
		c.Authenticate(a[0])
	default:
		panic("unknown method " + m)
	}
}

type runner struct {
	s    *sess.Session
	off  int // bytes of the server's transcript already consumed
	rng  *rand.Rand
	w    *bufio.Writer
	n    int
	perM map[string]int
	sl   int
}

func newRunner(seed int64, out io.Writer) (*runner, error) {
	r := &runner{rng: rand.New(rand.NewSource(seed)), w: bufio.NewWriterSize(out, 1<<20), perM: map[string]int{}, sl: -12345}
	r.s = sess.New(nil)
	if err := r.s.Connect(); err != nil {
		return nil, err
	}
	if !r.s.Welcome("me", 5*time.Second) {
		return nil, fmt.Errorf("registration did not complete")
	}
	r.off = len(r.s.Srv.Bytes())
	return r, nil
}

// do executes one call and records the bytes the server received for it. The
// end of the call's output is marked by a Raw line carrying a random token.
func (r *runner) do(c Call) error {
	args := make([]string, len(c.A))
	for i, x := range c.A {
		args[i] = toBytes(x)
	}
	r.s.Cfg.SplitLen = c.SL
	tok := fmt.Sprintf("ZZEND %016x", r.rng.Uint64())
	invoke(r.s.C, c.M, args)
	r.s.C.Raw(tok)
	mark := []byte(tok + "\r\n")
	var all []byte
	ok := r.s.Srv.WaitFor(10*time.Second, func([]string) bool {
		all = r.s.Srv.Bytes()
		return bytes.Contains(all[r.off:], mark)
	})
	if !ok {
		return fmt.Errorf("marker of call %s%q never arrived at the server", c.M, c.A)
	}
	i := bytes.Index(all[r.off:], mark)
	wire := string(all[r.off : r.off+i])
	r.off += i + len(mark)
	rec := Rec{M: c.M, A: c.A, SL: c.SL, QuitMsg: fromBytes(r.s.Cfg.QuitMessage), Wire: fromBytes(wire)}
	b, _ := json.Marshal(rec)
	r.w.Write(ASCIIJSON(b))
	r.w.WriteByte('\n')
	r.n++
	r.perM[c.M]++
	return nil
}

// preConnect: command methods called on a client that has never been connected (the call may well block for
// ever - it runs in a goroutine that is left behind), then Connect and the welcome.  Whatever reaches the
// server besides the registration is recorded as that call's bytes; framing and verb (C08OK) must hold for
// them like for any other call.  (Whether such a call is sent at all is not claimed by any listed property.)
func preConnect(path string) error {
	f, err := os.Create(path)
	if err != nil {
		return err
	}
	defer f.Close()
	calls := []Call{
		{M: "Join", A: []string{"#chan\r\nQUIT :injected"}, SL: 450},
		{M: "Privmsg", A: []string{"#chan", "hello\nNICK evil"}, SL: 450},
		{M: "Raw", A: []string{"PING a\rQUIT"}, SL: 450},
		{M: "Topic", A: []string{"#c", "t\r\nQUIT :x"}, SL: 450},
		{M: "Nick", A: []string{"ok"}, SL: 450},
	}
	for _, c := range calls {
		s := sess.New(nil)
		args := make([]string, len(c.A))
		for i, x := range c.A {
			args[i] = toBytes(x)
		}
		go func() {
			defer func() { recover() }()
			invoke(s.C, c.M, args)
		}()
		time.Sleep(2 * time.Millisecond)
		if err := s.Connect(); err != nil {
			return err
		}
		if !s.Welcome("me", 5*time.Second) {
			return fmt.Errorf("registration did not complete")
		}
		s.Sync(5 * time.Second)
		time.Sleep(2 * time.Millisecond)
		wire := ""
		all := string(s.Srv.Bytes())
		for _, l := range strings.SplitAfter(all, "\n") {
			t := strings.TrimRight(l, "\r\n")
			if t == "NICK me" || strings.HasPrefix(t, "USER ident ") || strings.HasPrefix(t, "PONG :sync-") || l == "" {
				continue
			}
			wire += l
		}
		rec := Rec{M: c.M, A: c.A, SL: c.SL, QuitMsg: fromBytes(s.Cfg.QuitMessage), Wire: fromBytes(wire)}
		b, _ := json.Marshal(rec)
		f.Write(ASCIIJSON(b))
		f.Write([]byte("\n"))
		s.Close()
	}
	return nil
}

// RunCalls: stdin = TLC output of MCCommands (CALL lines).
func RunCalls(args []string) int {
	fs := flag.NewFlagSet("cmd-calls", flag.ExitOnError)
	out := fs.String("out", "trace.ndjson", "trace file")
	seed := fs.Int64("seed", 1, "seed")
	random := fs.Int("random", 0, "additional random calls")
	mode := fs.String("mode", "dirty", "random calls: dirty (any method, CR/LF allowed) | split (splitting methods, clean long texts)")
	sweep := fs.Int("sweep", 0, "also sweep splitMessage over all texts up to this length over {a, space, '.'} (0: off)")
	maxt := fs.Int("maxtext", 900, "maximal length of random texts")
	pre := fs.String("preout", "", "also record command methods called BEFORE the first Connect into this file")
	fs.Parse(args)
	maxText = *maxt
	f, err := os.Create(*out)
	if err != nil {
		return 2
	}
	defer f.Close()
	r, err := newRunner(*seed, f)
	if err != nil {
		fmt.Println("cannot set up:", err)
		return 2
	}
	defer r.s.Close()
	defer r.w.Flush()
	in := bufio.NewReaderSize(os.Stdin, 1<<20)
	var sample []Call
	for {
		line, rerr := in.ReadString('\n')
		if strings.HasPrefix(line, "\"CALL ") {
			s, uerr := strconv.Unquote(strings.TrimSpace(line))
			if uerr != nil {
				fmt.Println(uerr)
				return 2
			}
			var c Call
			if jerr := json.Unmarshal([]byte(s[5:]), &c); jerr != nil {
				fmt.Println(jerr)
				return 2
			}
			if len(sample) < 3 && r.n%97 == 5 {
				sample = append(sample, c)
			}
			if err := r.do(c); err != nil {
				fmt.Println("INCOMPLETE " + err.Error())
				return 3
			}
		} else if len(line) > 0 {
			fmt.Print("TLC: " + line)
		}
		if rerr != nil {
			break
		}
	}
	enumerated := r.n
	for i := 0; i < *random; i++ {
		if err := r.do(RandCall(r.rng, *mode)); err != nil {
			fmt.Println("INCOMPLETE " + err.Error())
			return 3
		}
	}
	if *pre != "" {
		if err := preConnect(*pre); err != nil {
			fmt.Println("INCOMPLETE pre-connect calls: " + err.Error())
			return 3
		}
	}
	var sw map[string]int
	if *sweep > 0 {
		sw = SplitSweep(r.w, *sweep, r.rng)
	}
	b, _ := json.Marshal(map[string]interface{}{"calls": r.n, "enumerated": enumerated, "random": r.n - enumerated, "per_method": r.perM, "samples": sample, "sweep": sw})
	fmt.Println("SUMMARY " + string(b))
	return 0
}

var methods = []struct {
	name  string
	arity int
	vari  bool
}{{"Raw", 1, false}, {"Pass", 1, false}, {"Nick", 1, false}, {"User", 2, false}, {"Join", 1, true}, {"Part", 1, true}, {"Kick", 2, true},
	{"Quit", 0, true}, {"Whois", 1, false}, {"Who", 1, false}, {"Privmsg", 2, false}, {"Privmsgln", 1, true}, {"Privmsgf", 3, false},
	{"Notice", 2, false}, {"Ctcp", 2, true}, {"CtcpReply", 2, true}, {"Version", 1, false}, {"Action", 2, false}, {"Topic", 1, true},
	{"Mode", 1, true}, {"Away", 0, true}, {"Invite", 2, false}, {"Oper", 2, false}, {"VHost", 2, false}, {"Ping", 1, false},
	{"Pong", 1, false}, {"Cap", 1, true}, {"Authenticate", 1, false}}

var maxText = 900

func randBytes(r *rand.Rand, clean bool) string {
	if !clean && r.Intn(4) == 0 {
		// adversarial: control characters in every order around short words
		toks := []string{"\x00", "\x01", "\r", "\n", "\r\n", "a", "QUIT :x", " ", ":", "PING 1", "\x00\n", "b c"}
		s := ""
		for i, m := 0, 2+r.Intn(6); i < m; i++ {
			s += toks[r.Intn(len(toks))]
		}
		return s
	}
	n := 0
	switch r.Intn(6) {
	case 0:
		n = 0
	case 1, 2:
		n = 1 + r.Intn(12)
	case 3:
		n = r.Intn(80)
	case 4:
		n = 400 + r.Intn(200)
	default:
		n = r.Intn(maxText)
	}
	b := make([]rune, n)
	for i := range b {
		switch k := r.Intn(40); {
		case k == 0 && !clean:
			b[i] = '\r'
		case k == 1 && !clean:
			b[i] = '\n'
		case k < 8:
			b[i] = ' '
		case k < 11:
			b[i] = rune(".,;:!?\"'"[r.Intn(8)])
		case k < 13:
			b[i] = rune(0x80 + r.Intn(0x80)) // bytes >= 0x80: multi-byte sequences are not kept intact, lengths must still hold
		case k == 13:
			b[i] = rune(r.Intn(32))
			if clean && (b[i] == '\r' || b[i] == '\n') {
				b[i] = 1
			}
		default:
			b[i] = rune('a' + r.Intn(26))
		}
	}
	return string(b)
}

// goSplitOK transliterates Commands!SplitOK; it only pre-filters the sweep
// (every failure and a sample of the passes are still decided by TLC).
func goSplitOK(text string, L int, ps []string) bool {
	if L < 13 {
		L = 450
	}
	if len(text) <= L {
		return len(ps) == 1 && ps[0] == text
	}
	if len(ps) < 2 || ps[len(ps)-1] == "" {
		return false
	}
	joined := ""
	for i, p := range ps {
		if len(p) > L {
			return false
		}
		if i < len(ps)-1 {
			if !strings.HasSuffix(p, "...") || len(p) <= 3 {
				return false
			}
			joined += p[:len(p)-3]
		} else {
			joined += p
		}
	}
	return joined == text
}

// SplitSweep runs splitMessage over every text of length 14..maxLen over the
// alphabet {a, space, '.'} for SplitLen 13 and 14 and logs direct-split records.
func SplitSweep(w *bufio.Writer, maxLen int, rng *rand.Rand) map[string]int {
	alpha := []byte{'a', ' ', '.'}
	res := map[string]int{"texts": 0, "logged": 0, "prefilter_failures": 0}
	log := func(text string, sl int, ps []string) {
		b, _ := json.Marshal(map[string]interface{}{"text": fromBytes(text), "sl": sl, "pieces": mapStrings(ps, fromBytes)})
		w.Write(ASCIIJSON(b))
		w.WriteByte('\n')
		res["logged"]++
	}
	buf := make([]byte, maxLen)
	var rec func(n, d int)
	rec = func(n, d int) {
		if d == n {
			text := string(buf[:n])
			for _, sl := range []int{13, 14} {
				ps := client.VerifSplitMessage(text, sl)
				res["texts"]++
				ok := goSplitOK(text, sl, ps)
				if !ok {
					res["prefilter_failures"]++
				}
				if (!ok && res["prefilter_failures"] <= 200) || rng.Intn(20000) == 0 {
					log(text, sl, ps)
				}
			}
			return
		}
		for _, c := range alpha {
			buf[d] = c
			rec(n, d+1)
		}
	}
	for n := 14; n <= maxLen; n++ {
		rec(n, 0)
	}
	// long runs of one byte (a split must terminate whatever the bytes are)
	for _, fill := range []byte{0x80, 0xbf, 0xc3, 0xe3, 0xff, 'a', ' ', '.', ','} {
		for _, n := range []int{460, 900} {
			for _, sl := range []int{13, 450} {
				text := strings.Repeat(string([]byte{fill}), n)
				done := make(chan []string, 1)
				go func() { done <- client.VerifSplitMessage(text, sl) }()
				select {
				case ps := <-done:
					res["texts"]++
					log(text, sl, ps)
				case <-time.After(3 * time.Second):
					// does not terminate: recorded as a split into no pieces at all (rejected by SplitOK)
					res["nonterminating"]++
					log(text, sl, []string{})
				}
			}
		}
	}
	return res
}

func mapStrings(l []string, f func(string) string) []string {
	r := make([]string, len(l))
	for i, x := range l {
		r[i] = f(x)
	}
	return r
}

// RandCall draws a call with arbitrary byte strings in every position.
func RandCall(r *rand.Rand, mode string) Call {
	m := methods[r.Intn(len(methods))]
	if mode == "split" || r.Intn(3) == 0 {
		// the splitting methods with clean long texts (C11)
		m = methods[[]int{10, 11, 12, 13, 14, 15, 17}[r.Intn(7)]]
	}
	clean := mode == "split" || r.Intn(3) != 0
	n := m.arity
	if m.vari {
		n += r.Intn(3)
	}
	a := make([]string, n)
	for i := range a {
		a[i] = randBytes(r, clean)
		if i < m.arity-1 || (m.name != "Raw" && i == 0 && m.arity > 1) {
			// targets and names: short
			if len(a[i]) > 20 {
				a[i] = a[i][:len(string([]rune(a[i])[:10]))]
			}
		}
	}
	if m.name == "Privmsgf" {
		a[1] = "%s"
	}
	if m.name == "Ctcp" || m.name == "CtcpReply" {
		// the CTCP verb is upper-cased by the client; keep it ASCII so that the
		// specification's ToUpper is the same function
		a[1] = []string{"version", "PING", "Time", "x", "dcc"}[r.Intn(5)]
	}
	sl := []int{-5, 0, 5, 12, 13, 14, 20, 23, 100, 450, 451, 512, 1000}[r.Intn(13)]
	if r.Intn(2) == 0 {
		sl = 450
	}
	found := false
	for _, s := range []string{"Privmsg", "Privmsgln", "Privmsgf", "Notice", "Ctcp", "CtcpReply", "Action"} {
		found = found || s == m.name
	}
	if !found {
		sl = 450
	}
	if found && sl >= 13 && sl < 100 {
		// thousands of pieces per call cost TLC tens of minutes each (the predicate is quadratic in the text):
		// with a small SplitLen a text of 1500 bytes already gives more than a hundred pieces
		for i := range a {
			if r := []rune(a[i]); len(r) > 1500 {
				a[i] = string(r[:1500])
			}
		}
	}
	return Call{M: m.name, A: a, SL: sl}
}
