// Package reg runs the configurations enumerated by spec/MCRegistration.tla
// on a real client and records dial address, registration burst (also after a
// reconnect), PONG replies and client PINGs for RegistrationTrace.tla (C18).
package reg

import (
	"bufio"
	"crypto/ecdsa"
	"crypto/elliptic"
	"crypto/rand"
	"crypto/tls"
	"crypto/x509"
	"crypto/x509/pkix"
	"encoding/json"
	"flag"
	"fmt"
	"io"
	"math/big"
	"os"
	"strconv"
	"strings"
	"sync"
	"time"

	sasl "github.com/emersion/go-sasl"
	"github.com/fluffle/goirc/client"
	"verifharness/cmds"
	"verifharness/fakenet"
)

type Cfg struct {
	Nick     string `json:"nick"`
	Ident    string `json:"ident"`
	Name     string `json:"name"`
	Pass     string `json:"pass"`
	Neg      bool   `json:"neg"`
	Sasl     bool   `json:"sasl"`
	SSL      bool   `json:"ssl"`
	Server   string `json:"server"`
	PingFreq int    `json:"pingfreq"`
}

type pong struct {
	Tok   string   `json:"tok"`
	Reply []string `json:"reply"`
}

type ctcp struct {
	Verb   string   `json:"verb"`
	HasArg bool     `json:"hasarg"`
	Arg    string   `json:"arg"`
	From   string   `json:"from"`
	Reply  []string `json:"reply"`
}

type rec struct {
	Version string   `json:"version"`
	Ctcps   []ctcp   `json:"ctcps"`
	Cfg     Cfg      `json:"cfg"`
	Dialed  string   `json:"dialed"`
	Burst   []string `json:"burst"`
	Burst2  []string `json:"burst2"`
	Pongs   []pong   `json:"pongs"`
	Pings   int      `json:"pings"`
}

func selfSigned() (tls.Certificate, error) {
	k, err := ecdsa.GenerateKey(elliptic.P256(), rand.Reader)
	if err != nil {
		return tls.Certificate{}, err
	}
	tmpl := &x509.Certificate{SerialNumber: big.NewInt(1), Subject: pkix.Name{CommonName: "irc.example.net"},
		NotBefore: time.Now().Add(-time.Hour), NotAfter: time.Now().Add(time.Hour), KeyUsage: x509.KeyUsageDigitalSignature,
		ExtKeyUsage: []x509.ExtKeyUsage{x509.ExtKeyUsageServerAuth}}
	der, err := x509.CreateCertificate(rand.Reader, tmpl, tmpl, &k.PublicKey, k)
	if err != nil {
		return tls.Certificate{}, err
	}
	return tls.Certificate{Certificate: [][]byte{der}, PrivateKey: k}, nil
}

// server is the scripted server of one connection: plain or TLS on top of the fake socket.
type server struct {
	mu    sync.Mutex
	lines []string
	w     io.Writer
	ch    chan struct{}
	fc    *fakenet.Conn
}

func serve(fc *fakenet.Conn, cert *tls.Certificate) *server {
	s := &server{ch: make(chan struct{}, 1024), fc: fc}
	var rw io.ReadWriter = fc.ServerSide()
	if cert != nil {
		rw = tls.Server(fc.ServerSide(), &tls.Config{Certificates: []tls.Certificate{*cert}})
	}
	s.w = rw
	go func() {
		br := bufio.NewReader(rw)
		for {
			l, err := br.ReadString('\n')
			if l != "" {
				s.mu.Lock()
				s.lines = append(s.lines, strings.TrimRight(l, "\r\n"))
				s.mu.Unlock()
				select {
				case s.ch <- struct{}{}:
				default:
				}
			}
			if err != nil {
				return
			}
		}
	}()
	return s
}

func (s *server) get() []string {
	s.mu.Lock()
	defer s.mu.Unlock()
	return append([]string(nil), s.lines...)
}

func (s *server) waitFor(d time.Duration, cond func([]string) bool) bool {
	deadline := time.After(d)
	for {
		if cond(s.get()) {
			return true
		}
		select {
		case <-s.ch:
		case <-time.After(2 * time.Millisecond):
		case <-deadline:
			return cond(s.get())
		}
	}
}

func (s *server) send(l string) { fmt.Fprintf(s.w, "%s\r\n", l) }

func burstOf(l []string) []string {
	for i, x := range l {
		if strings.HasPrefix(x, "USER ") {
			return l[:i+1]
		}
	}
	return l
}

// RunCfgs: stdin = TLC output of MCRegistration (CFG lines).
func RunCfgs(args []string) int {
	fs := flag.NewFlagSet("reg-cfgs", flag.ExitOnError)
	out := fs.String("out", "trace.ndjson", "trace file")
	window := fs.Int("window", 120, "milliseconds to watch for client PINGs")
	fs.Parse(args)
	cert, err := selfSigned()
	if err != nil {
		fmt.Println("cannot create a certificate:", err)
		return 2
	}
	f, err := os.Create(*out)
	if err != nil {
		return 2
	}
	defer f.Close()
	w := bufio.NewWriterSize(f, 1<<20)
	defer w.Flush()
	tokens := []string{"tok", "two words", ":lead", "a:b :c", "", strings.Repeat("T", 400), "12345678",
		"trailing blank ", "tab\t", " ", " leading blank", "two  blanks"}
	n, ssl := 0, 0
	var sample interface{}
	in := bufio.NewReaderSize(os.Stdin, 1<<20)
	for {
		line, rerr := in.ReadString('\n')
		if strings.HasPrefix(line, "\"CFG ") {
			s, uerr := strconv.Unquote(strings.TrimSpace(line))
			if uerr != nil {
				return 2
			}
			var c Cfg
			if json.Unmarshal([]byte(s[4:]), &c) != nil {
				return 2
			}
			r, err := runOne(c, &cert, tokens, time.Duration(*window)*time.Millisecond)
			if err != nil {
				fmt.Println("INCOMPLETE", err, "for", s[4:])
				return 3
			}
			b, _ := json.Marshal(r)
			w.Write(cmds.ASCIIJSON(b))
			w.WriteByte('\n')
			n++
			if c.SSL {
				ssl++
			}
			if sample == nil && c.SSL && c.Pass != "" {
				sample = r
			}
		} else if len(line) > 0 {
			fmt.Print("TLC: " + line)
		}
		if rerr != nil {
			break
		}
	}
	// one more session outside the enumerated configurations: keep-alive under constant traffic, flood control on
	{
		c := Cfg{Nick: "busy", Ident: "ident", Name: "Real Name", Server: "irc.example.net:6667", PingFreq: 3000}
		r, err := runOne(c, nil, nil, 9500*time.Millisecond, true)
		if err != nil {
			fmt.Println("INCOMPLETE keep-alive under traffic:", err)
			return 3
		}
		b, _ := json.Marshal(r)
		w.Write(cmds.ASCIIJSON(b))
		w.WriteByte('\n')
		n++
	}
	b, _ := json.Marshal(map[string]interface{}{"sessions": n, "tls_sessions": ssl, "tokens": len(tokens), "sample": sample})
	fmt.Println("SUMMARY " + string(b))
	return 0
}

var ctcpQueries = []ctcp{{Verb: "VERSION", From: "asker"}, {Verb: "PING", HasArg: true, Arg: "12345 678", From: "asker2"}, {Verb: "TIME", HasArg: true, Arg: "now", From: "asker"}}

// traffic: flood control on and the server pinging the client all the time - the client's own keep-alive PINGs
// (PingFreq > 0) are due nevertheless
func runOne(c Cfg, cert *tls.Certificate, tokens []string, window time.Duration, traffic ...bool) (*rec, error) {
	busy := len(traffic) > 0 && traffic[0]
	netw := fakenet.NewNetwork()
	defer netw.Release()
	cfg := client.NewConfig(c.Nick, c.Ident, c.Name)
	cfg.Server, cfg.Pass, cfg.SSL = c.Server, c.Pass, c.SSL
	cfg.SSLConfig = &tls.Config{InsecureSkipVerify: true}
	cfg.Proxy = netw.URL()
	cfg.Flood = !busy
	cfg.EnableCapabilityNegotiation = c.Neg
	cfg.PingFreq = time.Duration(c.PingFreq) * time.Millisecond
	cfg.Timeout = 5 * time.Second
	if c.Sasl {
		cfg.Sasl = sasl.NewPlainClient("", "u", "p")
	}
	var srvMu sync.Mutex
	var servers []*server
	netw.OnDial = func(addr string) (*fakenet.Conn, error) {
		fc := fakenet.NewConn()
		var ct *tls.Certificate
		if c.SSL {
			ct = cert
		}
		srvMu.Lock()
		servers = append(servers, serve(fc, ct))
		srvMu.Unlock()
		return fc, nil
	}
	conn := client.Client(cfg)
	cfg.Version = "verif client 1.0"
	r := &rec{Cfg: c, Pongs: []pong{}, Ctcps: []ctcp{}, Version: cfg.Version}
	disc := make(chan struct{}, 4)
	conn.HandleFunc(client.DISCONNECTED, func(*client.Conn, *client.Line) { disc <- struct{}{} })
	for round := 0; round < 2; round++ {
		if err := conn.Connect(); err != nil {
			return nil, fmt.Errorf("connect: %v", err)
		}
		d := netw.Dials()
		if round == 0 {
			r.Dialed = d[len(d)-1].Addr
		}
		srvMu.Lock()
		srv := servers[len(servers)-1]
		srvMu.Unlock()
		if !srv.waitFor(5*time.Second, func(l []string) bool { return len(burstOf(l)) > 0 && strings.HasPrefix(l[len(burstOf(l))-1], "USER ") }) {
			return nil, fmt.Errorf("no registration burst (got %q)", srv.get())
		}
		// let anything that follows the burst arrive, then take the burst as everything up to USER
		srv.send(":irc.example.net 001 " + c.Nick + " :Welcome " + c.Nick + "!" + c.Ident + "@host")
		if round == 0 {
			r.Burst = burstOf(srv.get())
			if busy {
				stop := make(chan struct{})
				go func() {
					// the server's PING falls into the last third of every keep-alive period
					period := time.Duration(c.PingFreq) * time.Millisecond
					next := period * 2 / 3
					for i := 0; i < 4; i++ {
						select {
						case <-stop:
							return
						case <-time.After(next):
							srv.send(fmt.Sprintf("PING :srv-%d", i))
							next = period
						}
					}
				}()
				srv.waitFor(window, func(l []string) bool {
					for _, x := range l {
						if strings.HasPrefix(x, "PING :") {
							return true
						}
					}
					return false
				})
				close(stop)
				tokens = nil
			}
			for i, tok := range tokens {
				before := len(srv.get())
				if strings.ContainsAny(tok, " :") || tok == "" || i%2 == 0 {
					srv.send("PING :" + tok)
				} else {
					srv.send("PING " + tok)
				}
				// a sentinel with a unique token bounds the wait without a timeout
				sent := fmt.Sprintf("sentinel-%d", i)
				srv.send("PING :" + sent)
				if !srv.waitFor(5*time.Second, func(l []string) bool {
					for _, x := range l[before:] {
						if x == "PONG :"+sent {
							return true
						}
					}
					return false
				}) {
					return nil, fmt.Errorf("the client stopped answering PING")
				}
				var reply []string
				for _, x := range srv.get()[before:] {
					if x == "PONG :"+sent {
						break
					}
					if !strings.HasPrefix(x, "PING :") { // the client's own keep-alive
						reply = append(reply, x)
					}
				}
				if reply == nil {
					reply = []string{}
				}
				r.Pongs = append(r.Pongs, pong{Tok: latin(tok), Reply: latinAll(reply)})
			}
			// the built-in CTCP answers
			qs := []ctcp{}
			if !busy {
				qs = append(qs, ctcpQueries...)
			}
			for i, q := range qs {
				before := len(srv.get())
				body := q.Verb
				if q.HasArg {
					body += " " + q.Arg
				}
				srv.send(":" + q.From + "!u@h PRIVMSG " + c.Nick + " :\x01" + body + "\x01")
				sent := fmt.Sprintf("ctcp-sentinel-%d", i)
				srv.send("PING :" + sent)
				if !srv.waitFor(5*time.Second, func(l []string) bool {
					for _, x := range l[before:] {
						if x == "PONG :"+sent {
							return true
						}
					}
					return false
				}) {
					return nil, fmt.Errorf("the client stopped answering PING")
				}
				q.Reply = []string{}
				for _, x := range srv.get()[before:] {
					if x == "PONG :"+sent {
						break
					}
					if !strings.HasPrefix(x, "PING :") {
						q.Reply = append(q.Reply, latin(x))
					}
				}
				r.Ctcps = append(r.Ctcps, q)
			}
			if !c.SSL && !busy {
				// a PING that arrives while the output queue is full (the server has stopped reading for a moment,
				// a user goroutine keeps sending): the answer is late, not lost
				before := len(srv.get())
				srv.fc.SetBudget(0)
				go func() {
					defer func() { recover() }()
					for i := 0; i < 40; i++ {
						conn.Raw(fmt.Sprintf("PRIVMSG #fill :%d", i))
					}
				}()
				time.Sleep(8 * time.Millisecond)
				srv.send("PING :under-pressure")
				time.Sleep(8 * time.Millisecond)
				srv.fc.SetBudget(-1)
				has := func(want string) func(l []string) bool {
					return func(l []string) bool {
						for _, x := range l[before:] {
							if x == want {
								return true
							}
						}
						return false
					}
				}
				// the answer was queued among the filler lines: once the last of those is through it is overdue
				srv.waitFor(5*time.Second, has("PRIVMSG #fill :39"))
				srv.waitFor(300*time.Millisecond, has("PONG :under-pressure"))
				reply := []string{}
				for _, x := range srv.get()[before:] {
					if strings.HasPrefix(x, "PONG ") {
						reply = append(reply, x)
					}
				}
				r.Pongs = append(r.Pongs, pong{Tok: "under-pressure", Reply: latinAll(reply)})
			}
			if !busy {
				time.Sleep(window)
			}
			for _, x := range srv.get() {
				if strings.HasPrefix(x, "PING :") {
					r.Pings++
				}
			}
		} else {
			r.Burst2 = burstOf(srv.get())
		}
		conn.Close()
		select {
		case <-disc:
		case <-time.After(5 * time.Second):
			return nil, fmt.Errorf("no DISCONNECTED after Close")
		}
	}
	r.Burst, r.Burst2 = latinAll(r.Burst), latinAll(r.Burst2)
	return r, nil
}

func latin(s string) string {
	x := make([]rune, len(s))
	for i := 0; i < len(s); i++ {
		x[i] = rune(s[i])
	}
	return string(x)
}

func latinAll(l []string) []string {
	r := make([]string, len(l))
	for i, x := range l {
		r[i] = latin(x)
	}
	return r
}
