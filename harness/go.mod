module verifharness

go 1.21

require (
	github.com/emersion/go-sasl v0.0.0-20220912192320-0145f2c60ead
	github.com/fluffle/goirc v0.0.0
	golang.org/x/net v0.18.0
)

require github.com/golang/mock v1.5.0 // indirect

replace github.com/fluffle/goirc => /repo
