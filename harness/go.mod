module verifharness

go 1.21

require github.com/fluffle/goirc v0.0.0

require github.com/golang/mock v1.5.0 // indirect

replace github.com/fluffle/goirc => /repo
