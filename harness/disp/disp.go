// Package disp binds spec/Dispatch.tla to the handler sets of a real
// client.Conn: every edge of TLC's state graph (register / remove / event) is
// replayed on a real client over a real connection (C04, C16).
package disp

import (
	"bufio"
	"encoding/json"
	"flag"
	"fmt"
	"io"
	"os"
	"sort"
	"strconv"
	"strings"
	"sync"
	"time"

	"github.com/fluffle/goirc/client"
	"verifharness/sess"
)

// Reg is one registration of the model.
type Reg struct {
	Set  string `json:"set"`
	Name string `json:"name"`
	Body string `json:"body"`
	Arg  int    `json:"arg"`
}

// regMap decodes a TLA+ function with integer domain: a sequence when the
// domain is 1..n, an object with decimal keys otherwise, [] when empty.
type regMap map[int]Reg

func (m *regMap) UnmarshalJSON(b []byte) error {
	r := map[int]Reg{}
	t := strings.TrimSpace(string(b))
	if strings.HasPrefix(t, "[") {
		var l []Reg
		if err := json.Unmarshal(b, &l); err != nil {
			return err
		}
		for i, x := range l {
			r[i+1] = x
		}
	} else {
		var o map[string]Reg
		if err := json.Unmarshal(b, &o); err != nil {
			return err
		}
		for k, x := range o {
			i, err := strconv.Atoi(k)
			if err != nil {
				return err
			}
			r[i] = x
		}
	}
	*m = r
	return nil
}

type State struct {
	Regs   regMap `json:"regs"`
	NextID int    `json:"nextId"`
	Gone   []int  `json:"gone"`
}

func (s *State) Key() string {
	ids := make([]int, 0, len(s.Regs))
	for i := range s.Regs {
		ids = append(ids, i)
	}
	sort.Ints(ids)
	g := append([]int(nil), s.Gone...)
	sort.Ints(g)
	var b strings.Builder
	for _, i := range ids {
		r := s.Regs[i]
		fmt.Fprintf(&b, "%d:%s/%s/%s/%d;", i, r.Set, r.Name, r.Body, r.Arg)
	}
	fmt.Fprintf(&b, "|%d|%v", s.NextID, g)
	return b.String()
}

type Op struct {
	Op       string `json:"op"`
	ID       int    `json:"id"`
	Set      string `json:"set"`
	Name     string `json:"name"`
	Body     string `json:"body"`
	Arg      int    `json:"arg"`
	Int      []int  `json:"int"`
	Fg       []int  `json:"fg"`
	BgMust   []int  `json:"bgmust"`
	BgMay    []int  `json:"bgmay"`
	Panics   []int  `json:"panics"`
	MayPanic []int  `json:"maypanic"`
}

type Edge struct {
	F State `json:"f"`
	O Op    `json:"o"`
	T State `json:"t"`
}

// ---- the real client under the model's operations ---------------------------

type inv struct {
	id, ev int
}

type rig struct {
	s            *sess.Session
	mu           sync.Mutex
	nextID       int
	removers     map[int]client.Remover
	used         map[int]bool
	rmselfed     map[int]bool
	invs         []inv
	recov        int
	evseq        int
	bgDone       map[string]chan struct{}
	fail         string
	recon        chan error
	reconnecting bool
}

var maxRegs = 1 << 30

var (
	hookOnce sync.Once
	hookMu   sync.Mutex
	hookRigs = map[*client.Conn]*rig{}
)

// installHook is called by the sub-command (never from init: every driver of
// the binary installs its own hook when it runs).
func installHook() {
	client.VerifHook = func(ev string, c *client.Conn, a ...interface{}) {
		if ev != "hset.dispatch.end" || c == nil {
			return
		}
		if client.VerifSetName(c, a[0]) != "bg" {
			return
		}
		hookMu.Lock()
		r := hookRigs[c]
		hookMu.Unlock()
		if r == nil {
			return
		}
		l := a[1].(*client.Line)
		r.mu.Lock()
		ch := r.bgDone[l.Raw]
		r.mu.Unlock()
		if ch != nil {
			close(ch)
		}
	}
}

func newRig() (*rig, error) {
	hookOnce.Do(installHook)
	r := &rig{nextID: 1, removers: map[int]client.Remover{}, used: map[int]bool{}, rmselfed: map[int]bool{}, bgDone: map[string]chan struct{}{}}
	r.s = sess.New(func(c *client.Config) {
		c.Recover = func(conn *client.Conn, l *client.Line) {
			if x := recover(); x != nil {
				r.mu.Lock()
				r.recov++
				r.mu.Unlock()
			}
		}
	})
	hookMu.Lock()
	hookRigs[r.s.C] = r
	hookMu.Unlock()
	// the reconnect idiom: a foreground DISCONNECTED handler connects again (while "reconnecting" is set)
	r.recon = make(chan error, 4)
	r.s.C.HandleFunc(client.DISCONNECTED, func(c *client.Conn, l *client.Line) {
		r.mu.Lock()
		want := r.reconnecting
		r.mu.Unlock()
		if want {
			r.recon <- c.Connect()
		}
	})
	if err := r.s.Connect(); err != nil {
		return nil, err
	}
	if !r.s.Welcome("me", 5*time.Second) {
		return nil, fmt.Errorf("registration did not complete")
	}
	return r, nil
}

func (r *rig) close() {
	hookMu.Lock()
	delete(hookRigs, r.s.C)
	hookMu.Unlock()
	r.s.Close()
}

// register adds registration id (mu NOT held by the caller unless locked is true).
func (r *rig) register(id int, set, name, body string, arg int) {
	h := client.HandlerFunc(func(c *client.Conn, l *client.Line) {
		ev := 0
		if len(l.Args) > 0 {
			ev, _ = strconv.Atoi(l.Args[0])
		}
		r.mu.Lock()
		r.invs = append(r.invs, inv{id, ev})
		var rm client.Remover
		addSet := ""
		newID := 0
		switch body {
		case "rmself":
			if !r.used[id] {
				r.used[id] = true
				rm = r.removers[id]
			}
		case "rm":
			if !r.used[arg] && r.removers[arg] != nil {
				r.used[arg] = true
				rm = r.removers[arg]
			}
		case "addfg", "addbg":
			// like the model, an adder does nothing once all identities are used up
			if r.nextID <= maxRegs {
				addSet = body[3:]
				newID = r.nextID
				r.nextID++
			}
		}
		r.mu.Unlock()
		if rm != nil {
			rm.Remove()
		}
		if addSet != "" {
			r.register(newID, addSet, "b", "noop", 0)
		}
		if body == "panic" {
			panic(fmt.Sprintf("boom-%d", id))
		}
	})
	var rem client.Remover
	switch set {
	case "fg":
		if id%2 == 0 {
			rem = r.s.C.Handle(name, h)
		} else {
			rem = r.s.C.HandleFunc(name, h)
		}
	case "bg":
		rem = r.s.C.HandleBG(name, h)
	case "int":
		rem = client.VerifHandleInternal(r.s.C, name, h)
	}
	r.mu.Lock()
	r.removers[id] = rem
	r.mu.Unlock()
}

func sorted(x []int) []int {
	y := append([]int(nil), x...)
	sort.Ints(y)
	return y
}

func has(l []int, x int) bool {
	for _, y := range l {
		if y == x {
			return true
		}
	}
	return false
}

// apply performs one model operation; for events it returns a description
// of the disagreement with the model's result, if any.
func (r *rig) apply(o *Op, check bool) string {
	switch o.Op {
	case "register":
		r.mu.Lock()
		id := r.nextID
		r.nextID++
		r.mu.Unlock()
		if check && id != o.ID {
			return fmt.Sprintf("identity mismatch: harness %d model %d", id, o.ID)
		}
		r.register(id, o.Set, o.Name, o.Body, o.Arg)
	case "remove":
		r.mu.Lock()
		rm := r.removers[o.ID]
		r.used[o.ID] = true
		r.mu.Unlock()
		if rm == nil {
			return fmt.Sprintf("no remover for %d", o.ID)
		}
		rm.Remove()
	case "reconnect":
		r.mu.Lock()
		r.reconnecting = true
		r.mu.Unlock()
		r.s.Srv.EOF()
		var err error
		select {
		case err = <-r.recon:
		case <-time.After(5 * time.Second):
			return "Connect called from the foreground DISCONNECTED handler did not return"
		}
		r.mu.Lock()
		r.reconnecting = false
		r.mu.Unlock()
		if err != nil {
			return "Connect called from the foreground DISCONNECTED handler returned " + err.Error()
		}
		r.s.LatestSrv()
		if !r.s.Welcome("me", 5*time.Second) {
			return "the connection made from the DISCONNECTED handler does not register / answer PING"
		}
	case "event":
		r.mu.Lock()
		r.evseq++
		ev := r.evseq
		raw := fmt.Sprintf(":srv %s %d", o.Name, ev)
		done := make(chan struct{})
		r.bgDone[raw] = done
		rec0 := r.recov
		r.mu.Unlock()
		r.s.Srv.SendLines(raw)
		if !r.s.Sync(5 * time.Second) {
			return "the event loop did not get past the event (no PONG)"
		}
		select {
		case <-done:
		case <-time.After(2 * time.Second):
			return "the background dispatch of the event never finished"
		}
		if !check {
			return ""
		}
		r.mu.Lock()
		defer r.mu.Unlock()
		delete(r.bgDone, raw)
		counts := map[int]int{}
		for _, iv := range r.invs {
			if iv.ev == ev {
				counts[iv.id]++
			}
		}
		var msgs []string
		exact := append(append([]int{}, o.Int...), o.Fg...)
		exact = append(exact, o.BgMust...)
		for _, id := range exact {
			if counts[id] != 1 {
				msgs = append(msgs, fmt.Sprintf("registration %d invoked %d times, model says once", id, counts[id]))
			}
		}
		for id, n := range counts {
			if has(exact, id) {
				continue
			}
			if has(o.BgMay, id) {
				if n > 1 {
					msgs = append(msgs, fmt.Sprintf("background registration %d invoked %d times", id, n))
				}
				continue
			}
			msgs = append(msgs, fmt.Sprintf("registration %d invoked %d times, model says it is not invoked", id, n))
		}
		np := r.recov - rec0
		minP := len(o.Panics)
		maxP := minP
		for _, id := range o.MayPanic {
			if counts[id] > 0 {
				maxP++
			}
		}
		if np < minP || np > maxP {
			msgs = append(msgs, fmt.Sprintf("recovery function called %d times, model says %d..%d", np, minP, maxP))
		}
		sort.Strings(msgs)
		return strings.Join(msgs, "; ")
	}
	return ""
}

// ---- edge replay ---------------------------------------------------------------

type node struct {
	parent string
	op     *Op
	depth  int
	root   bool
}

type Failure struct {
	Property string `json:"property"`
	Path     []*Op  `json:"path"`
	Op       *Op    `json:"op"`
	Detail   string `json:"detail"`
}

type Summary struct {
	Edges    int            `json:"edges"`
	States   int            `json:"states"`
	Events   int            `json:"event_edges"`
	Effects  int            `json:"events_with_effects"`
	Panics   int            `json:"events_with_panics"`
	Rebuilds int            `json:"sessions"`
	Ops      map[string]int `json:"op_counts"`
	Failures int            `json:"failures"`
	Files    []string       `json:"failure_files"`
	Samples  []interface{}  `json:"samples"`
	Unplaced int            `json:"edges_with_unknown_source"`
	WallS    float64        `json:"wall_s"`
	Stopped  bool           `json:"stopped_after_10_failures"`
}

func path(nodes map[string]*node, key string) []*Op {
	var p []*Op
	for k := key; ; {
		n := nodes[k]
		if n == nil || n.root {
			break
		}
		p = append(p, n.op)
		k = n.parent
	}
	for i, j := 0, len(p)-1; i < j; i, j = i+1, j-1 {
		p[i], p[j] = p[j], p[i]
	}
	return p
}

// RunEdges reads TLC output of MCDispatch on stdin.
func RunEdges(args []string) int {
	fs := flag.NewFlagSet("disp-edges", flag.ExitOnError)
	out := fs.String("out", ".", "directory for failure artefacts")
	replay := fs.String("replay", "", "re-run a failure artefact")
	mr := fs.Int("maxregs", 1<<30, "MaxRegs of the configuration (identities an adder body may still use)")
	fs.Parse(args)
	maxRegs = *mr
	if *replay != "" {
		return runReplay(*replay)
	}
	start := time.Now()
	sum := Summary{Ops: map[string]int{}}
	nodes := map[string]*node{}
	init := State{Regs: regMap{}, NextID: 1}
	nodes[init.Key()] = &node{root: true}
	sum.States = 1
	var cur *rig
	curKey := ""
	defer func() {
		if cur != nil {
			cur.close()
		}
	}()
	var pending []*Edge
	do := func(e *Edge) bool {
		fk, tk := e.F.Key(), e.T.Key()
		if _, ok := nodes[fk]; !ok {
			return false
		}
		if _, ok := nodes[tk]; !ok {
			nodes[tk] = &node{parent: fk, op: &e.O, depth: nodes[fk].depth + 1}
			sum.States++
		}
		sum.Edges++
		sum.Ops[e.O.Op]++
		if cur == nil || curKey != fk {
			if cur != nil {
				cur.close()
			}
			var err error
			cur, err = newRig()
			if err != nil {
				fmt.Fprintln(os.Stderr, "cannot set up a session:", err)
				cur = nil
				return true
			}
			sum.Rebuilds++
			for _, o := range path(nodes, fk) {
				cur.apply(o, false)
			}
		}
		msg := cur.apply(&e.O, true)
		curKey = tk
		if e.O.Op == "event" {
			sum.Events++
			if fk != tk {
				sum.Effects++
			}
			if len(e.O.Panics) > 0 {
				sum.Panics++
			}
			if len(sum.Samples) < 3 && fk != tk && len(e.O.Fg) > 0 {
				sum.Samples = append(sum.Samples, map[string]interface{}{"path": path(nodes, fk), "event": e.O})
			}
		}
		if msg != "" {
			sum.Failures++
			if sum.Failures <= 5 {
				prop := "C04"
				if strings.Contains(msg, "recovery function") && !strings.Contains(msg, "invoked") {
					prop = "C16"
				}
				f := Failure{Property: prop, Path: path(nodes, fk), Op: &e.O, Detail: msg}
				name := fmt.Sprintf("%s/disp-fail-%03d.json", *out, sum.Failures)
				b, _ := json.MarshalIndent(f, "", " ")
				if os.WriteFile(name, b, 0o644) == nil {
					sum.Files = append(sum.Files, name)
				}
				fmt.Printf("MISMATCH %s op=%+v\n", msg, e.O)
			}
			cur.close()
			cur = nil
		}
		return true
	}
	in := bufio.NewReaderSize(os.Stdin, 1<<20)
	for {
		line, err := in.ReadString('\n')
		if strings.HasPrefix(line, "\"EDGE ") {
			s, uerr := strconv.Unquote(strings.TrimSpace(line))
			if uerr != nil {
				fmt.Fprintln(os.Stderr, uerr)
				return 2
			}
			var e Edge
			if jerr := json.Unmarshal([]byte(s[5:]), &e); jerr != nil {
				fmt.Fprintf(os.Stderr, "cannot parse edge: %v: %.300s\n", jerr, s)
				return 2
			}
			if sum.Failures >= 10 {
				// enough evidence; do not spend the timeouts of thousands of further edges
				sum.Stopped = true
			} else if !do(&e) {
				pending = append(pending, &e)
			}
		} else if len(line) > 0 {
			fmt.Print("TLC: " + line)
		}
		if err == io.EOF {
			break
		}
		if err != nil {
			return 2
		}
	}
	for progress := true; progress && len(pending) > 0; {
		progress = false
		var rest []*Edge
		for _, e := range pending {
			if do(e) {
				progress = true
			} else {
				rest = append(rest, e)
			}
		}
		pending = rest
	}
	sum.Unplaced = len(pending)
	sum.WallS = time.Since(start).Seconds()
	b, _ := json.Marshal(sum)
	fmt.Println("SUMMARY " + string(b))
	if sum.Failures > 0 {
		return 1
	}
	return 0
}

func runReplay(file string) int {
	b, err := os.ReadFile(file)
	if err != nil {
		fmt.Println(err)
		return 2
	}
	var f Failure
	if json.Unmarshal(b, &f) != nil {
		return 2
	}
	r, err := newRig()
	if err != nil {
		fmt.Println(err)
		return 2
	}
	defer r.close()
	for _, o := range f.Path {
		fmt.Printf("  %+v\n", *o)
		r.apply(o, false)
	}
	msg := r.apply(f.Op, true)
	fmt.Printf("OP %+v\n  -> %q\n", *f.Op, msg)
	if msg != "" {
		return 1
	}
	return 0
}
