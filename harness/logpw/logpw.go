// Package logpw records everything the library hands to an installed logger
// over sessions that use a connection password (C20, spec/LogTrace.tla).
package logpw

import (
	"bufio"
	"encoding/json"
	"errors"
	"flag"
	"fmt"
	sasl "github.com/emersion/go-sasl"
	"math/rand"
	"os"
	"strings"
	"sync"
	"time"

	"github.com/fluffle/goirc/client"
	"github.com/fluffle/goirc/logging"
	"verifharness/cmds"
	"verifharness/fakenet"
	"verifharness/sess"
)

type capLog struct {
	mu   sync.Mutex
	recs []string
}

func (c *capLog) add(f string, a ...interface{}) {
	s := fmt.Sprintf(f, a...)
	c.mu.Lock()
	c.recs = append(c.recs, s)
	c.mu.Unlock()
}
func (c *capLog) Debug(f string, a ...interface{}) { c.add(f, a...) }
func (c *capLog) Info(f string, a ...interface{})  { c.add(f, a...) }
func (c *capLog) Warn(f string, a ...interface{})  { c.add(f, a...) }
func (c *capLog) Error(f string, a ...interface{}) { c.add(f, a...) }
func (c *capLog) take() []string {
	c.mu.Lock()
	defer c.mu.Unlock()
	r := c.recs
	c.recs = nil
	return r
}

type sessKind struct {
	name      string
	neg       bool
	tracking  bool
	failWrite int    // fail the n-th socket write (0: none)
	dialFail  bool   // the dial fails
	refused   bool   // Connect again while connected
	eof       bool   // the server closes right after the burst
	connectTo bool   // password given through ConnectTo
	stall     bool   // the server never reads: the registration lines stay queued until the connection ends
	userPass  bool   // no password configured: the application sends it itself with conn.Pass()
	sasl      bool   // a SASL client is configured as well (the server password is still sent, and must still be masked)
	flood     bool   // flood control on, the penalty already near the threshold (as after a quick reconnect): PASS itself is held back
	second    string // a second session on the same client with another password, given through "connectTo" or "config"
}

func kinds() []sessKind {
	ks := []sessKind{{name: "plain"}, {name: "negotiation", neg: true}, {name: "tracking", tracking: true}, {name: "negotiation+tracking", neg: true, tracking: true},
		{name: "dial-failure", dialFail: true}, {name: "refused-connect", refused: true}, {name: "eof-after-burst", eof: true, neg: true},
		{name: "connect-to", connectTo: true},
		{name: "stalled-server+close", stall: true}, {name: "negotiation+stalled-server+close", stall: true, neg: true},
		{name: "negotiation+stalled-server+eof", stall: true, neg: true, eof: true},
		{name: "second-session-password-by-ConnectTo", second: "connectTo"}, {name: "second-session-password-in-Config", second: "config", neg: true},
		{name: "ConnectTo-then-second-ConnectTo", connectTo: true, second: "connectTo"},
		{name: "password-sent-with-conn.Pass()", userPass: true}, {name: "password-cleared-in-Config-after-Connect", userPass: true, neg: true},
		{name: "sasl-plain+server-password", sasl: true}, {name: "sasl-plain+server-password+tracking", sasl: true, tracking: true},
		{name: "flood-control-on+penalty-near-threshold", flood: true}, {name: "negotiation+flood-control-on+penalty-near-threshold", flood: true, neg: true}}
	for n := 1; n <= 4; n++ {
		ks = append(ks, sessKind{name: fmt.Sprintf("write-%d-fails", n), failWrite: n})
		ks = append(ks, sessKind{name: fmt.Sprintf("negotiation+write-%d-fails", n), failWrite: n, neg: true})
	}
	return ks
}

func runSession(k sessKind, pw string, lg *capLog) []string {
	lg.take()
	s := sess.New(func(c *client.Config) {
		c.EnableCapabilityNegotiation = k.neg
		if k.sasl {
			c.Sasl = sasl.NewPlainClient("", "account", "account-secret-not-the-server-password")
		}
		c.Flood = !k.flood
		if !k.connectTo && !(k.userPass && !k.neg) {
			c.Pass = pw
			if k.second != "" {
				c.Pass = pw + "-1st"
			}
		}
	})
	defer s.Net.Release()
	if k.tracking {
		s.C.EnableStateTracking()
	}
	s.Net.OnDial = func(addr string) (*fakenet.Conn, error) {
		if k.dialFail {
			return nil, errors.New("fakenet: connection refused")
		}
		c := fakenet.NewConn()
		if k.stall {
			c.SetBudget(0)
		}
		if k.failWrite > 0 {
			c.FailWrite(k.failWrite, errors.New("fakenet: broken pipe"))
		}
		return c, nil
	}
	if k.flood {
		// the penalty of an earlier session survives a reconnect: start just below the threshold
		client.VerifSetFloodState(s.C, 9800*time.Millisecond, time.Now())
	}
	disc := make(chan struct{}, 2)
	s.C.HandleFunc(client.DISCONNECTED, func(*client.Conn, *client.Line) { disc <- struct{}{} })
	var err error
	if k.connectTo {
		first := pw
		if k.second != "" {
			first = pw + "-1st"
		}
		err = s.C.ConnectTo("irc.example.net:6667", first)
		if d := s.Net.Dials(); len(d) > 0 && d[len(d)-1].Conn != nil {
			s.Srv = d[len(d)-1].Conn
		}
	} else {
		err = s.Connect()
	}
	if err == nil {
		if k.failWrite > 0 {
			// provoke enough writes for the n-th one to happen
			s.Srv.SendLines(":irc.example.net 001 me :Welcome me!i@h", "PING :a", "PING :b", "PING :c")
			select {
			case <-disc:
			case <-time.After(500 * time.Millisecond):
			}
		} else if k.stall {
			time.Sleep(2 * time.Millisecond) // let the REGISTER handler queue its lines
			if k.eof {
				s.Srv.EOF()
				select {
				case <-disc:
				case <-time.After(2 * time.Second):
				}
			}
		} else if k.flood {
			// the registration lines are written one rate-limited line at a time; PASS is enough
			if pw != "" {
				s.Srv.WaitLine("PASS ", 0, 8*time.Second)
			} else {
				s.Srv.WaitLine("NICK ", 0, 8*time.Second)
			}
		} else {
			s.Srv.WaitLine("USER ", 0, 2*time.Second)
			if k.refused {
				s.C.Connect()
			}
			if k.eof {
				s.Srv.EOF()
				select {
				case <-disc:
				case <-time.After(2 * time.Second):
				}
			} else {
				s.Welcome("me", 2*time.Second)
				if k.userPass {
					// the secret is removed from the configuration as soon as it is no longer needed, and sent
					// once more by hand (as for a services login that takes the same password)
					s.C.Config().Pass = ""
					s.C.Pass(pw)
				}
				s.Srv.SendLines(":x!y@z PRIVMSG me :hello", "PING :t")
				s.Sync(2 * time.Second)
			}
		}
		done := make(chan struct{})
		go func() { s.C.Close(); close(done) }()
		select {
		case <-done:
		case <-time.After(2 * time.Second):
		}
		if k.second != "" {
			// the same client again, with another password
			select {
			case <-disc:
			case <-time.After(2 * time.Second):
			}
			var err2 error
			if k.second == "connectTo" {
				err2 = s.C.ConnectTo("irc.example.net:6667", pw+"-2nd")
			} else {
				s.C.Config().Pass = pw + "-2nd"
				err2 = s.C.Connect()
			}
			if err2 == nil {
				s.LatestSrv()
				s.Srv.WaitLine("USER ", 0, 2*time.Second)
				s.Welcome("me", 2*time.Second)
				done2 := make(chan struct{})
				go func() { s.C.Close(); close(done2) }()
				select {
				case <-done2:
				case <-time.After(2 * time.Second):
				}
			}
		}
	}
	time.Sleep(time.Millisecond)
	return lg.take()
}

// very short passwords made of digits and punctuation collide with counters, ports and durations in the log
func isDigitsOrPunct(s string) bool {
	for i := 0; i < len(s); i++ {
		if c := s[i]; (c >= 'a' && c <= 'z') || (c >= 'A' && c <= 'Z') {
			return false
		}
	}
	return true
}

func latinAll(l []string) []string {
	r := make([]string, len(l))
	for i, s := range l {
		x := make([]rune, len(s))
		for j := 0; j < len(s); j++ {
			x[j] = rune(s[j])
		}
		r[i] = string(x)
	}
	return r
}

// RunLog is the sub-command.
func RunLog(args []string) int {
	fs := flag.NewFlagSet("logpw", flag.ExitOnError)
	out := fs.String("out", "trace.ndjson", "trace file")
	np := fs.Int("passwords", 20, "number of passwords")
	seed := fs.Int64("seed", 1, "seed")
	fs.Parse(args)
	rng := rand.New(rand.NewSource(*seed))
	f, err := os.Create(*out)
	if err != nil {
		return 2
	}
	defer f.Close()
	w := bufio.NewWriterSize(f, 1<<20)
	defer w.Flush()
	lg := &capLog{}
	logging.SetLogger(lg)
	defer logging.SetLogger(nil)
	ks := kinds()
	// baselines: the same sessions without a password; a candidate password must not occur in them
	// ... in any of them, run twice: what a session logs also depends on timing (how far it got before a
	// write failed) and on counters (network names); a password that occurs in this corpus by accident
	// ("W" in "Welcome", "2" in a port or a counter) says nothing when it is found in a record
	baseline := map[string]string{}
	corpus := ""
	for round := 0; round < 2; round++ {
		for _, k := range ks {
			if k.flood && round == 1 {
				continue
			}
			b := strings.Join(runSession(k, "", lg), "\n")
			baseline[k.name] += b + "\n"
			corpus += b + "\n"
		}
	}
	printable := ""
	for c := 0x21; c <= 0x7e; c++ {
		printable += string(rune(c))
	}
	var pws []string
	fixed := []string{"hunter2", "p", "pw", "correct horse battery staple", "PASS", "%s%d%v", "\"quoted\"", ":colon", strings.Repeat("long-password-", 20), "sëcret", "a b", "-> x"}
	for _, p := range fixed {
		pws = append(pws, p)
	}
	for len(pws) < *np {
		// random passwords of 5..28 characters: shorter ones (the fixed list has some) are all but certain to occur
		// in unrelated log text; those that do are skipped below
		n := 5 + rng.Intn(24)
		b := make([]byte, n)
		for i := range b {
			b[i] = printable[rng.Intn(len(printable))]
		}
		pws = append(pws, string(b))
	}
	sessions, records, skipped := 0, 0, 0
	var sample interface{}
	for pi, pw := range pws[:*np] {
		for _, k := range ks {
			if k.flood && pi >= 2 {
				continue // seconds per session: the first two passwords only
			}
			if strings.Contains(corpus, pw) || strings.Contains("-> PASS **************", pw) || (len(pw) < 4 && isDigitsOrPunct(pw)) {
				skipped++ // the password is a substring of what this session logs anyway
				continue
			}
			recs := runSession(k, pw, lg)
			b, _ := json.Marshal(map[string]interface{}{"password": latinAll([]string{pw})[0], "session": k.name, "records": latinAll(recs)})
			w.Write(cmds.ASCIIJSON(b))
			w.WriteByte('\n')
			sessions++
			records += len(recs)
			if sample == nil && k.failWrite == 1 {
				sample = map[string]interface{}{"password": pw, "session": k.name, "records": recs}
			}
		}
	}
	b, _ := json.Marshal(map[string]interface{}{"sessions": sessions, "records": records, "passwords": *np, "session_kinds": len(ks), "skipped_password_in_baseline": skipped, "sample": sample})
	fmt.Println("SUMMARY " + string(b))
	return 0
}
