// Package tracer records the verif hook events of a client.Conn as one
// ND-JSON trace for spec/ConnTrace.tla. Every event carries the goroutine
// that emitted it; the log is appended under one mutex, so log order is
// consistent with happens-before (releasing operations are hooked before they
// happen, acquiring ones after).
package tracer

import (
	"bufio"
	"bytes"
	"encoding/json"
	"net"
	"os"
	"runtime"
	"strconv"
	"sync"

	"github.com/fluffle/goirc/client"
)

// Event is one line of the trace.
type Event struct {
	Ev   string `json:"ev"`
	G    int    `json:"g"`              // goroutine id
	Tg   int    `json:"tg"`             // close.lock: generation of the socket the closer was started for (0: public Close)
	Gen  int    `json:"gen"`            // conn.up: the new generation
	Nwg  int    `json:"nwg"`            // conn.up: goroutines in the wait group
	Line int    `json:"line"`           // identity of a received line
	Out  string `json:"out"`            // an outgoing line
	QCap int    `json:"qcap,omitempty"` // reset: queue capacity
	Cmd  string `json:"cmd,omitempty"`  // disp.begin: REGISTER / DISCONNECTED
}

// Tracer collects events of all connections of the process.
type Tracer struct {
	mu         sync.Mutex
	cond       *sync.Cond
	w          *bufio.Writer
	f          *os.File
	n          int
	gens       map[net.Conn]int
	gen        int
	lines      map[*client.Line]int
	nline      int
	connecting bool
	Ping       bool
	on         bool
}

func gid() int {
	var buf [64]byte
	n := runtime.Stack(buf[:], false)
	b := buf[:n]
	b = bytes.TrimPrefix(b, []byte("goroutine "))
	if i := bytes.IndexByte(b, ' '); i > 0 {
		id, _ := strconv.Atoi(string(b[:i]))
		return id
	}
	return 0
}

// keep: the events ConnTrace.tla knows; everything else is not recorded.
var keep = map[string]bool{"conn.lock": true, "conn.refused": true, "conn.up": true, "conn.unlock": true,
	"recv.enq.begin": true, "recv.enq.end": true, "recv.err": true, "loop.deq": true, "loop.ctx": true,
	"send.deq": true, "send.err": true, "send.ctx": true, "ping.exit": true, "raw.enq.begin": true, "raw.enq.end": true,
	"close.lock": true, "close.noop": true, "close.mark": true, "close.waited": true, "close.unlock": true, "disp.begin": true}

// New creates the trace file and installs the hook.
func New(path string) (*Tracer, error) {
	f, err := os.Create(path)
	if err != nil {
		return nil, err
	}
	t := &Tracer{f: f, w: bufio.NewWriterSize(f, 1<<20), gens: map[net.Conn]int{}, lines: map[*client.Line]int{}}
	t.cond = sync.NewCond(&t.mu)
	client.VerifHook = t.hook
	return t, nil
}

// Reset starts a new scenario in the trace (no connection may be up).
func (t *Tracer) Reset(qcap int, ping bool) {
	t.mu.Lock()
	t.gens = map[net.Conn]int{}
	t.lines = map[*client.Line]int{}
	t.gen, t.nline, t.connecting, t.Ping, t.on = 0, 0, false, ping, true
	t.emit(Event{Ev: "reset", QCap: qcap})
	t.mu.Unlock()
}

// Pause stops recording (between scenarios).
func (t *Tracer) Pause() {
	t.mu.Lock()
	t.on = false
	t.cond.Broadcast()
	t.mu.Unlock()
}

func (t *Tracer) emit(e Event) {
	b, _ := json.Marshal(e)
	t.w.Write(b)
	t.w.WriteByte('\n')
	t.n++
}

// Close flushes the trace.
func (t *Tracer) Close() int {
	t.mu.Lock()
	defer t.mu.Unlock()
	client.VerifHook = nil
	t.w.Flush()
	t.f.Close()
	return t.n
}

func (t *Tracer) hook(ev string, c *client.Conn, a ...interface{}) {
	g := gid()
	t.mu.Lock()
	defer t.mu.Unlock()
	if !t.on {
		return
	}
	switch ev {
	case "recv.start", "send.start", "loop.start":
		// the goroutines of a new connection are started inside Connect's critical section; what they
		// do is held back until conn.up has been logged (this only delays them a few microseconds)
		for t.connecting && t.on {
			t.cond.Wait()
		}
		return
	}
	if !keep[ev] {
		return
	}
	e := Event{Ev: ev, G: g}
	switch ev {
	case "conn.lock":
		t.connecting = true
	case "conn.unlock":
		t.connecting = false
		t.cond.Broadcast()
	case "conn.up":
		t.gen++
		if len(a) > 0 {
			if s, ok := a[0].(net.Conn); ok {
				t.gens[s] = t.gen
			}
		}
		e.Gen = t.gen
		e.Nwg = 3
		if t.Ping {
			e.Nwg = 4
		}
		t.connecting = false
		t.cond.Broadcast()
	case "close.lock":
		if len(a) > 0 && a[0] != nil {
			if s, ok := a[0].(net.Conn); ok && s != nil {
				e.Tg = t.gens[s]
				if e.Tg == 0 {
					e.Tg = -1 // a socket the trace has never seen
				}
			}
		}
	case "recv.enq.begin", "recv.enq.end", "loop.deq":
		l := a[0].(*client.Line)
		id, ok := t.lines[l]
		if !ok {
			t.nline++
			id = t.nline
			t.lines[l] = id
		}
		e.Line = id
	case "send.deq":
		e.Out = a[0].(string)
	case "raw.enq.begin", "raw.enq.end":
		e.Out = cut(a[0].(string))
	case "disp.begin":
		l := a[0].(*client.Line)
		if l.Cmd != client.REGISTER && l.Cmd != client.DISCONNECTED {
			return
		}
		e.Cmd = l.Cmd
	}
	t.emit(e)
}

// cut mirrors what Raw puts into the queue: the part before the first CR or LF
func cut(s string) string {
	for i := 0; i < len(s); i++ {
		if s[i] == '\r' || s[i] == '\n' {
			return s[:i]
		}
	}
	return s
}
