// Package phases records handler events of a real client for the property
// monitor spec/PhasesTrace.tla (C03, C05, C16): monotone witness sessions with
// state tracking, several foreground and background handlers per line,
// handlers that linger, panic or never return, lines that make built-in
// handlers panic, random read segmentation, disconnects in mid-stream.
package phases

import (
	"bufio"
	"encoding/json"
	"flag"
	"fmt"
	"math/rand"
	"os"
	"strconv"
	"strings"
	"sync"
	"sync/atomic"
	"time"

	"github.com/fluffle/goirc/client"
	"github.com/fluffle/goirc/logging"
	"github.com/fluffle/goirc/state"
	"verifharness/sess"
)

type event struct {
	Ev    string `json:"ev"`
	Kind  string `json:"kind,omitempty"`
	H     string `json:"h,omitempty"`
	K     int    `json:"k"`
	Wk    bool   `json:"wk"`
	Wnext bool   `json:"wnext"`
	Panic bool   `json:"panic"`
}

type tlog struct {
	mu sync.Mutex
	w  *bufio.Writer
	n  int
}

func (t *tlog) add(e event) {
	b, _ := json.Marshal(e)
	t.mu.Lock()
	t.w.Write(b)
	t.w.WriteByte('\n')
	t.n++
	t.mu.Unlock()
}

// a test line with its witness: false before the line has been applied to the
// tracker, true ever after
type tline struct {
	raw     string
	verb    string
	witness func(st state.Tracker, me func() *state.Nick) bool
	ipanic  bool
}

func topicIndex(st state.Tracker) int {
	ch := st.GetChannel("#c")
	if ch == nil {
		return 0
	}
	i := strings.LastIndex(ch.Topic, "-")
	if i < 0 {
		return 0
	}
	n, _ := strconv.Atoi(ch.Topic[i+1:])
	return n
}

// script builds a monotone session of n test lines (indices 2..n+1; line 1 is
// the welcome). Every user that joins has exactly one fate (none, voice,
// rename, leave, who) decided when it joins, so that every witness is false
// until its line has been applied and true ever after.
func script(n int, rng *rand.Rand, tracking bool) []tline {
	ls := make([]tline, n+2) // 1-based; ls[1] = welcome
	// the welcome text is free-form: usually it ends in the client's hostmask, sometimes in something that only looks like one
	welcome := []string{"Welcome to the fake network me2!ident@client.host", "Welcome to the fake network me2!ident@client.host", "Welcome to the fake network me2",
		"Welcome, questions to admin@example.net!", "hi me2!@", "@!"}[rng.Intn(6)]
	ls[1] = tline{raw: ":irc.example.net 001 me2 :" + welcome, verb: "001",
		witness: func(st state.Tracker, me func() *state.Nick) bool { return me().Nick == "me2" }}
	pending := map[string][]string{} // fate -> users waiting for it
	topic := func(kk int) tline {
		return tline{raw: fmt.Sprintf(":op!o@h TOPIC #c :topic-%d", kk), verb: "TOPIC",
			witness: func(st state.Tracker, me func() *state.Nick) bool { return topicIndex(st) >= kk }}
	}
	take := func(f string) (string, bool) {
		l := pending[f]
		if len(l) == 0 {
			return "", false
		}
		i := rng.Intn(len(l))
		u := l[i]
		pending[f] = append(l[:i:i], l[i+1:]...)
		return u, true
	}
	for k := 2; k <= n+1; k++ {
		kk := k
		if k == 2 {
			// the client itself joins #c first
			ls[k] = tline{raw: ":me2!ident@client.host JOIN #c", verb: "JOIN",
				witness: func(st state.Tracker, me func() *state.Nick) bool { _, ok := st.IsOn("#c", "me2"); return ok }}
			continue
		}
		kind := rng.Intn(10)
		switch {
		case !tracking || kind == 9:
			// a bare PING makes the built-in handler panic; a PRIVMSG has nothing to witness
			if kind >= 8 {
				ls[k] = tline{raw: fmt.Sprintf("@k=%d PING", kk), verb: "PING", ipanic: true}
			} else if rng.Intn(6) == 0 {
				// a line longer than the client's read buffer must still be one event
				ls[k] = tline{raw: fmt.Sprintf(":x!y@z PRIVMSG #c :line %d %s", kk, strings.Repeat("long ", 900+rng.Intn(900))), verb: "PRIVMSG"}
			} else {
				ls[k] = tline{raw: fmt.Sprintf(":x!y@z PRIVMSG #c :line %d", kk), verb: "PRIVMSG"}
			}
		case kind == 0:
			ls[k] = topic(kk)
		case kind <= 3:
			u := fmt.Sprintf("u%d", kk)
			fate := []string{"none", "voice", "rename", "leave", "who"}[rng.Intn(5)]
			pending[fate] = append(pending[fate], u)
			ls[k] = tline{raw: fmt.Sprintf(":%s!i@h JOIN #c", u), verb: "JOIN"}
			if fate != "rename" && fate != "leave" {
				ls[k].witness = func(st state.Tracker, me func() *state.Nick) bool { _, ok := st.IsOn("#c", u); return ok }
			}
		case kind == 4:
			nm, ok := take("voice")
			if !ok {
				ls[k] = topic(kk)
				break
			}
			ls[k] = tline{raw: fmt.Sprintf(":op!o@h MODE #c +v %s", nm), verb: "MODE",
				witness: func(st state.Tracker, me func() *state.Nick) bool { p, ok := st.IsOn("#c", nm); return ok && p.Voice }}
		case kind == 5:
			old, ok := take("rename")
			if !ok {
				ls[k] = topic(kk)
				break
			}
			ls[k] = tline{raw: fmt.Sprintf(":%s!i@h NICK :r%s", old, old[1:]), verb: "NICK",
				witness: func(st state.Tracker, me func() *state.Nick) bool { return st.GetNick(old) == nil }}
		case kind == 6:
			nm, ok := take("leave")
			if !ok {
				ls[k] = topic(kk)
				break
			}
			how := []string{":%s!i@h PART #c", ":%s!i@h QUIT :bye", ":op!o@h KICK #c %s :out"}[rng.Intn(3)]
			verb := strings.Fields(how)[1]
			ls[k] = tline{raw: fmt.Sprintf(how, nm), verb: verb,
				witness: func(st state.Tracker, me func() *state.Nick) bool { return st.GetNick(nm) == nil }}
		case kind == 7:
			a, b := fmt.Sprintf("n%da", kk), fmt.Sprintf("n%db", kk)
			ls[k] = tline{raw: fmt.Sprintf(":irc 353 me2 = #c :%s @%s", a, b), verb: "353",
				witness: func(st state.Tracker, me func() *state.Nick) bool { p, ok := st.IsOn("#c", b); return ok && p.Op }}
		default:
			nm, ok := take("who")
			if !ok {
				ls[k] = topic(kk)
				break
			}
			id := fmt.Sprintf("id%d", kk)
			ls[k] = tline{raw: fmt.Sprintf(":irc 352 me2 #c %s host%d irc %s H :0 Real %d", id, kk, nm, kk), verb: "352",
				witness: func(st state.Tracker, me func() *state.Nick) bool {
					nk := st.GetNick(nm)
					return nk != nil && nk.Ident == id
				}}
		}
	}
	return ls
}

func goneNick(st state.Tracker, u string) bool { return false }

type sessionOpts struct {
	lines    int
	tracking bool
	end      string // "", "close", "eof", "reconnect" (EOF while a foreground handler runs, then the same script on a new connection)
	linger   bool   // handlers linger now and then
	misbe    bool   // handlers panic / block now and then
	holdInt  bool   // delay the internal phase now and then
	defRecov bool   // leave Config.Recover at its default (LogPanic): the recovery shows as an error record of the logger
}

// structHandler is a Handler that is not a HandlerFunc (recovery must not depend on the handler's type)
type structHandler struct{ f client.HandlerFunc }

func (s *structHandler) Handle(c *client.Conn, l *client.Line) { s.f(c, l) }

// recLogger turns the error record of the default recovery function into a "recover" event.
type recLogger struct{ onPanic func() }

func (r *recLogger) Debug(string, ...interface{}) {}
func (r *recLogger) Info(string, ...interface{})  {}
func (r *recLogger) Warn(string, ...interface{})  {}
func (r *recLogger) Error(f string, a ...interface{}) {
	if strings.Contains(f, "panic") {
		r.onPanic()
	}
}

var holdInt struct {
	sync.Mutex
	on  bool
	rng *rand.Rand
}

func installHook() {
	client.VerifHook = func(ev string, c *client.Conn, a ...interface{}) {
		if ev != "hset.dispatch.begin" || c == nil {
			return
		}
		holdInt.Lock()
		on := holdInt.on && holdInt.rng.Intn(3) == 0
		holdInt.Unlock()
		if on && client.VerifSetName(c, a[0]) == "int" {
			time.Sleep(150 * time.Microsecond)
		}
	}
}

func runSession(t *tlog, o sessionOpts, rng *rand.Rand) (stats map[string]int, err error) {
	stats = map[string]int{}
	ls := script(o.lines, rng, o.tracking)
	if o.end == "backlog" && len(ls) > 50 {
		// server PINGs at and around the position where the receive queue (32 lines) is exactly full behind the held handler
		// (behind the slow CONNECTED handler lines 2..33 fill the queue, behind the held handler of line 3 lines 4..35)
		for n, at := range []int{34, 37, 40, 43} {
			ping := tline{raw: fmt.Sprintf("PING :srv-token-%d", n), verb: "PING"}
			ls = append(ls[:at:at], append([]tline{ping}, ls[at:]...)...)
		}
	}
	if o.end == "eof" {
		// a server announces the end of the link before it closes it
		ls = append(ls, tline{raw: "ERROR :Closing Link: me2[client.host] (Quit: bye)", verb: "ERROR"})
	}
	index := map[string]int{}
	for k := 1; k < len(ls); k++ {
		index[ls[k].raw] = k
	}
	var rmu sync.Mutex
	hrng := rand.New(rand.NewSource(rng.Int63()))
	rnd := func(n int) int { rmu.Lock(); defer rmu.Unlock(); return hrng.Intn(n) }
	t.add(event{Ev: "reset"})
	var gen2 int32 // set when a "reconnect" session is on its second connection, which is not recorded
	if o.defRecov {
		logging.SetLogger(&recLogger{onPanic: func() {
			if atomic.LoadInt32(&gen2) == 0 {
				t.add(event{Ev: "recover"})
			}
		}})
		defer logging.SetLogger(nil)
	}
	s := sess.New(func(c *client.Config) {
		if o.end == "backlog" {
			// Config.Timeout is the dial timeout and nothing else: a tiny value must not change how long the event
			// loop waits for handlers (the in-memory dialer of the harness does not look at it)
			c.Timeout = time.Millisecond
		}
		if o.defRecov {
			return
		}
		c.Recover = func(conn *client.Conn, l *client.Line) {
			if x := recover(); x != nil && atomic.LoadInt32(&gen2) == 0 {
				t.add(event{Ev: "recover"})
			}
		}
	})
	defer s.Close()
	if o.tracking {
		s.C.EnableStateTracking()
	}
	forever := make(chan struct{})
	var nblocked, connEntered int32
	// "reconnect" sessions: the first foreground handler of line gateK stays inside until the second
	// connection has applied line gateK+1 (or 400 ms have passed); the second connection is not recorded
	gate, entered := make(chan struct{}), make(chan struct{})
	var enteredOnce sync.Once
	gateK := 0
	if o.end == "backlog" {
		gateK = 3 // held for 30 ms (below) while the rest of the script - more than the queue holds - arrives
	}
	if o.end == "reconnect" && o.tracking {
		for k := 3; k+1 < len(ls); k++ {
			if ls[k+1].witness != nil && !ls[k].ipanic && !ls[k+1].ipanic {
				gateK = k
				break
			}
		}
	}
	witness := func(k int) bool {
		if k < 1 || k >= len(ls) || ls[k].witness == nil {
			return k >= 1 && k < len(ls) // lines without a witness: trivially reflected
		}
		st := s.C.StateTracker()
		if st == nil {
			return true
		}
		return ls[k].witness(st, s.C.Me)
	}
	// wnext: has the NEXT line already been applied (when it has a witness)?
	next := func(k int) bool {
		if !o.tracking || k+1 >= len(ls) || ls[k+1].witness == nil {
			return false
		}
		return witness(k + 1)
	}
	// While a disconnect is in progress received lines may be discarded; what is dispatched after
	// such a gap was applied to a tracker that never saw the discarded lines, so its witness says
	// nothing any more: from the first gap on the witnesses are reported as trivially satisfied.
	var gmu sync.Mutex
	maxSeen, gapped := 0, false
	mk := func(kind, h string) client.HandlerFunc {
		return func(c *client.Conn, l *client.Line) {
			if atomic.LoadInt32(&gen2) == 1 {
				return
			}
			k := index[l.Raw]
			if l.Cmd == client.CONNECTED {
				k = 1
				atomic.AddInt32(&connEntered, 1)
			}
			if k == 0 && strings.HasPrefix(l.Raw, "PING :sync-") {
				return // the harness' own synchronisation line
			}
			if k == 0 {
				// a handler was given a line the server never sent (e.g. a fragment of a long line)
				t.add(event{Ev: "unknown"})
				return
			}
			gmu.Lock()
			if k > maxSeen+1 {
				gapped = true
			}
			if k > maxSeen {
				maxSeen = k
			}
			gp := gapped
			gmu.Unlock()
			wk := witness(k)
			if !o.tracking || gp {
				wk = true
			}
			if atomic.LoadInt32(&gen2) == 1 {
				// a background handler of the first connection that got going only now: the harness' own
				// reconnect may have wiped the tracker while the witness was evaluated
				return
			}
			if ls[k].ipanic && kind == "fg" && h == "f1" {
				// the line was dispatched: its built-in handler has panicked once
				t.add(event{Ev: "ipanic"})
			}
			t.add(event{Ev: "enter", Kind: kind, H: h, K: k, Wk: wk, Wnext: kind != "bg" && !gp && next(k)})
			if o.end == "backlog" && kind == "conn" && h == "f1" {
				// a slow CONNECTED handler: the lines after the welcome must wait for it
				time.Sleep(20 * time.Millisecond)
			}
			if gateK != 0 && k == gateK && kind == "fg" && h == "f1" {
				enteredOnce.Do(func() { close(entered) })
				hold := 400 * time.Millisecond
				if o.end == "backlog" {
					hold = 30 * time.Millisecond
				}
				select {
				case <-gate:
				case <-time.After(hold):
				}
			}
			out := "ret"
			if o.end == "bgstuck" && kind == "bg" {
				out = "block" // every background invocation of this session stays for ever
			}
			if o.misbe {
				switch x := rnd(40); {
				case x < 3:
					out = "panic"
				case x == 3 && kind == "bg":
					out = "block"
				}
			}
			if o.linger && rnd(6) == 0 {
				time.Sleep(time.Duration(50+rnd(400)) * time.Microsecond)
			}
			if o.end == "backlog" && kind == "fg" && h == "f1" && l.Cmd == "PING" {
				// a slow foreground PING handler: nothing later may be applied while it runs
				time.Sleep(45 * time.Millisecond)
			}
			if out == "block" {
				atomic.AddInt32(&nblocked, 1)
				<-forever
			}
			t.add(event{Ev: "exit", Kind: kind, H: h, K: k, Panic: out == "panic", Wnext: kind != "bg" && !gp && next(k)})
			if out == "panic" {
				panic(fmt.Sprintf("boom in %s/%s at line %d", kind, h, k))
			}
		}
	}
	verbs := map[string]bool{}
	for k := 1; k < len(ls); k++ {
		verbs[ls[k].verb] = true
	}
	for v := range verbs {
		s.C.HandleFunc(v, mk("fg", "f1"))
		s.C.Handle(v, &structHandler{mk("fg", "f2")})
		s.C.HandleBG(v, &structHandler{mk("bg", "b1")})
	}
	// a one-shot foreground handler: it removes itself first and then goes on working for a while - the
	// event loop has to wait for it like for any other handler of that line
	if len(ls) > 6 {
		var rm client.Remover
		var once sync.Once
		h3 := mk("fg", "f3")
		rm = s.C.HandleFunc(ls[4].verb, func(c *client.Conn, l *client.Line) {
			first := false
			once.Do(func() { first = true })
			if !first || atomic.LoadInt32(&gen2) == 1 {
				return
			}
			rm.Remove()
			time.Sleep(2 * time.Millisecond)
			h3(c, l)
		})
	}
	s.C.HandleFunc(client.CONNECTED, mk("conn", "f1"))
	s.C.HandleFunc(client.CONNECTED, mk("conn", "f2"))
	discSeen := make(chan struct{}, 4)
	s.C.HandleFunc(client.DISCONNECTED, func(c *client.Conn, l *client.Line) {
		t.add(event{Ev: "disc"})
		discSeen <- struct{}{}
	})
	if err := s.Connect(); err != nil {
		return stats, err
	}
	if _, ok := s.Srv.WaitLine("USER ", 0, 5*time.Second); !ok {
		return stats, fmt.Errorf("no registration")
	}
	holdInt.Lock()
	holdInt.on, holdInt.rng = o.holdInt, rand.New(rand.NewSource(rng.Int63()))
	holdInt.Unlock()
	var stream []byte
	for k := 1; k < len(ls); k++ {
		if ls[k].ipanic {
			stats["builtin_panics"]++
		}
		stream = append(stream, ls[k].raw+"\r\n"...)
	}
	var cuts []int
	for p := 0; p < len(stream); {
		p += 1 + rng.Intn(400)
		cuts = append(cuts, p)
	}
	stats["lines"] = len(ls) - 1
	switch o.end {
	case "", "backlog", "bgstuck":
		s.Srv.SendStream(stream, cuts)
		if !s.Sync(20 * time.Second) {
			if atomic.LoadInt32(&nblocked) == 0 {
				return stats, fmt.Errorf("the session did not reach its end (no PONG)")
			}
			// background handlers are blocked for ever and the foreground no longer gets its events
			t.add(event{Ev: "stalled"})
			stats["nodisc"]++
		}
	case "eof":
		s.Srv.SendStream(stream, cuts)
		s.Srv.EOF()
		select {
		case <-discSeen:
		case <-time.After(10 * time.Second):
			if atomic.LoadInt32(&nblocked) == 0 {
				return stats, fmt.Errorf("no DISCONNECTED after EOF")
			}
			// a background handler is blocked for ever and the foreground never got DISCONNECTED
			t.add(event{Ev: "nodisc"})
			stats["nodisc"]++
		}
	case "temperr":
		// a transient read error in the middle of a line: whatever the client makes of it (this one treats every
		// read error as the end of the connection), it must not go on with a line missing or a fragment delivered
		p := len(stream) / 2
		for p < len(stream)-1 && (stream[p-1] == '\n' || stream[p-1] == '\r' || stream[p] == '\r') {
			p++
		}
		s.Srv.Send(stream[:p])
		s.Srv.TempError()
		s.Srv.Send(stream[p:])
		select {
		case <-discSeen:
		case <-time.After(3 * time.Second):
			// the connection is still up: then every line must have arrived
			s.Sync(10 * time.Second)
			gmu.Lock()
			if maxSeen != len(ls)-1 || gapped {
				t.add(event{Ev: "lost", K: maxSeen})
			}
			gmu.Unlock()
			go s.C.Close()
			select {
			case <-discSeen:
			case <-time.After(5 * time.Second):
			}
		}
	case "reconnect":
		s.Srv.SendStream(stream, cuts)
		if gateK != 0 {
			select {
			case <-entered:
			case <-time.After(5 * time.Second):
				return stats, fmt.Errorf("line %d was never dispatched", gateK)
			}
		}
		s.Srv.EOF()
		select {
		case <-discSeen:
		case <-time.After(10 * time.Second):
			return stats, fmt.Errorf("no DISCONNECTED after EOF")
		}
		atomic.StoreInt32(&gen2, 1)
		if err := s.Connect(); err != nil {
			return stats, fmt.Errorf("reconnect: %v", err)
		}
		if _, ok := s.Srv.WaitLine("USER ", 0, 5*time.Second); !ok {
			return stats, fmt.Errorf("no registration on the second connection")
		}
		for k := 1; k <= gateK+1 && k < len(ls); k++ {
			s.Srv.SendLines(ls[k].raw)
		}
		if !s.Sync(10 * time.Second) {
			return stats, fmt.Errorf("the second connection does not answer PING")
		}
		close(gate)
		stats["reconnects"]++
		time.Sleep(2 * time.Millisecond)
	case "close":
		s.Srv.SendStream(stream, cuts)
		time.Sleep(time.Duration(rng.Intn(3000)) * time.Microsecond)
		go s.C.Close() // a Close that never returns must not take the driver with it
		select {
		case <-discSeen:
		case <-time.After(10 * time.Second):
			if atomic.LoadInt32(&nblocked) == 0 {
				return stats, fmt.Errorf("no DISCONNECTED after Close")
			}
			t.add(event{Ev: "nodisc"})
			stats["nodisc"]++
		}
	}
	if o.end == "" || o.end == "backlog" || o.end == "bgstuck" {
		// the connection stayed up: every line must have reached the foreground handlers
		gmu.Lock()
		if maxSeen != len(ls)-1 || gapped {
			t.add(event{Ev: "lost", K: maxSeen})
		}
		gmu.Unlock()
	}
	// the welcome was dispatched (later lines were) but no CONNECTED handler ever ran
	gmu.Lock()
	if maxSeen >= 2 && atomic.LoadInt32(&connEntered) == 0 {
		t.add(event{Ev: "noconnected"})
	}
	gmu.Unlock()
	// let background handlers that are still running log their exit
	time.Sleep(3 * time.Millisecond)
	stats["blocked"] = int(atomic.LoadInt32(&nblocked))
	holdInt.Lock()
	holdInt.on = false
	holdInt.Unlock()
	return stats, nil
}

// RunPhases records sessions.
func RunPhases(args []string) int {
	fs := flag.NewFlagSet("phases", flag.ExitOnError)
	out := fs.String("out", "trace.ndjson", "trace file")
	n := fs.Int("n", 60, "sessions")
	lines := fs.Int("lines", 60, "test lines per session")
	seed := fs.Int64("seed", 1, "seed")
	fs.Parse(args)
	installHook()
	f, err := os.Create(*out)
	if err != nil {
		return 2
	}
	defer f.Close()
	t := &tlog{w: bufio.NewWriterSize(f, 1<<20)}
	defer t.w.Flush()
	rng := rand.New(rand.NewSource(*seed))
	tot := map[string]int{}
	for i := 0; i < *n; i++ {
		o := sessionOpts{lines: 10 + rng.Intn(*lines), tracking: i%5 != 4, linger: i%2 == 0, misbe: i%3 != 0, holdInt: i%2 == 1}
		o.end = []string{"", "", "eof", "close"}[i%4]
		if i%8 == 7 {
			o.defRecov, o.misbe = true, true
		}
		if i%16 == 9 {
			// a backlog beyond the capacity of the receive queue builds up behind one slow foreground handler
			o.end, o.misbe, o.lines, o.tracking = "backlog", false, 80+rng.Intn(60), true
		}
		if i%16 == 5 {
			o.end, o.misbe, o.tracking = "reconnect", false, true
		}
		if i%16 == 1 {
			o.end, o.misbe = "temperr", false
		}
		if i%16 == 13 {
			// well over a hundred background handler invocations that never return
			o.end, o.misbe, o.lines = "bgstuck", false, 150+rng.Intn(50)
		}
		st, err := runSession(t, o, rng)
		if err != nil {
			fmt.Println("INCOMPLETE session", i, err)
			return 3
		}
		for k, v := range st {
			tot[k] += v
		}
		tot["sessions"]++
		if tot["nodisc"] >= 2 {
			break // enough evidence: every further session of this kind costs the full waiting time
		}
	}
	t.add(event{Ev: "reset"})
	tot["events"] = t.n
	b, _ := json.Marshal(tot)
	fmt.Println("SUMMARY " + string(b))
	return 0
}
