// Package trk binds spec/Tracker.tla to github.com/fluffle/goirc/state.
package trk

import (
	"encoding/json"
	"fmt"
	"sort"
	"strings"

	"github.com/fluffle/goirc/state"
)

// ---- JSON shapes emitted by MCTracker!Emit -------------------------------

// strSet decodes a TLA+ set of strings.
type strSet []string

func (s *strSet) UnmarshalJSON(b []byte) error {
	var v []string
	if err := json.Unmarshal(b, &v); err != nil {
		return err
	}
	sort.Strings(v)
	*s = v
	return nil
}

func (s strSet) chars() string { return strings.Join(s, "") }

// A TLA+ function with an empty domain is the empty tuple and is
// serialised as []; objMap accepts that where an object is expected.
func unmarshalObj(b []byte, into interface{}) error {
	t := strings.TrimSpace(string(b))
	if t == "[]" || t == "null" {
		return nil
	}
	return json.Unmarshal(b, into)
}

type setMap map[string]strSet

func (m *setMap) UnmarshalJSON(b []byte) error {
	v := map[string]strSet{}
	if err := unmarshalObj(b, &v); err != nil {
		return err
	}
	*m = v
	return nil
}

type strMap map[string]string

func (m *strMap) UnmarshalJSON(b []byte) error {
	v := map[string]string{}
	if err := unmarshalObj(b, &v); err != nil {
		return err
	}
	*m = v
	return nil
}

type intMap map[string]int

func (m *intMap) UnmarshalJSON(b []byte) error {
	v := map[string]int{}
	if err := unmarshalObj(b, &v); err != nil {
		return err
	}
	*m = v
	return nil
}

type infoMap map[string][]string

func (m *infoMap) UnmarshalJSON(b []byte) error {
	v := map[string][]string{}
	if err := unmarshalObj(b, &v); err != nil {
		return err
	}
	*m = v
	return nil
}

type memMap map[string]setMap

func (m *memMap) UnmarshalJSON(b []byte) error {
	v := map[string]setMap{}
	if err := unmarshalObj(b, &v); err != nil {
		return err
	}
	*m = v
	return nil
}

// SpecState is Tracker!StateRec.
type SpecState struct {
	Nicks  strSet  `json:"nicks"`
	Me     string  `json:"me"`
	Info   infoMap `json:"info"`
	NModes setMap  `json:"nmodes"`
	Chans  strSet  `json:"chans"`
	Topic  strMap  `json:"topic"`
	CFlags setMap  `json:"cflags"`
	CKey   strMap  `json:"ckey"`
	CLimit intMap  `json:"climit"`
	Mem    memMap  `json:"mem"`
}

// SpecRes is the res field of Tracker!lastOp.
type SpecRes struct {
	K     string  `json:"k"`
	Nick  string  `json:"nick"`
	Ident string  `json:"ident"`
	Host  string  `json:"host"`
	Name  string  `json:"name"`
	Modes strSet  `json:"modes"`
	Chans setMap  `json:"chans"`
	Topic string  `json:"topic"`
	Flags strSet  `json:"flags"`
	Key   string  `json:"key"`
	Limit int     `json:"limit"`
	Nicks setMap  `json:"nicks"`
	Ok    bool    `json:"ok"`
	Privs *strSet `json:"privs"`
}

type SpecOp struct {
	Op   string            `json:"op"`
	Args []json.RawMessage `json:"args"`
	Res  SpecRes           `json:"res"`
}

type Edge struct {
	F SpecState  `json:"f"`
	O SpecOp     `json:"o"`
	T *SpecState `json:"t"` // nil: same as F
}

// ---- the common projection ------------------------------------------------

// NickV / ChanV are the canonical, comparable forms of a nick / channel
// snapshot, used for the model and for the implementation alike.
type NickV struct {
	Nick, Ident, Host, Name string
	Modes                   string            // sorted mode characters
	Chans                   map[string]string // channel -> sorted privilege characters
}

type ChanV struct {
	Name, Topic string
	Flags       string
	Key         string
	Limit       int
	Nicks       map[string]string
}

// View is the whole abstract state.
type View struct {
	Me    string
	Nicks map[string]NickV
	Chans map[string]ChanV
}

func (v View) Key() string {
	b, _ := json.Marshal(v) // maps are marshalled with sorted keys
	return string(b)
}

func sortChars(s string) string {
	r := strings.Split(s, "")
	sort.Strings(r)
	return strings.Join(r, "")
}

func privMap(m setMap) map[string]string {
	r := make(map[string]string, len(m))
	for k, v := range m {
		r[k] = v.chars()
	}
	return r
}

// ViewOfSpec turns a spec state into a View.
func ViewOfSpec(s *SpecState) View {
	v := View{Me: s.Me, Nicks: map[string]NickV{}, Chans: map[string]ChanV{}}
	for _, n := range s.Nicks {
		inf := s.Info[n]
		for len(inf) < 3 {
			inf = append(inf, "")
		}
		nv := NickV{Nick: n, Ident: inf[0], Host: inf[1], Name: inf[2],
			Modes: s.NModes[n].chars(), Chans: map[string]string{}}
		for c, members := range s.Mem {
			if p, ok := members[n]; ok {
				nv.Chans[c] = p.chars()
			}
		}
		v.Nicks[n] = nv
	}
	for _, c := range s.Chans {
		v.Chans[c] = ChanV{Name: c, Topic: s.Topic[c], Flags: s.CFlags[c].chars(),
			Key: s.CKey[c], Limit: s.CLimit[c], Nicks: privMap(s.Mem[c])}
	}
	return v
}

func nickModeChars(m *state.NickMode) string {
	if m == nil {
		return "<nil>"
	}
	s := ""
	if m.Bot {
		s += "B"
	}
	if m.Invisible {
		s += "i"
	}
	if m.Oper {
		s += "o"
	}
	if m.WallOps {
		s += "w"
	}
	if m.HiddenHost {
		s += "x"
	}
	if m.SSL {
		s += "z"
	}
	return sortChars(s)
}

func chanFlagChars(m *state.ChanMode) string {
	if m == nil {
		return "<nil>"
	}
	s := ""
	for _, f := range []struct {
		b bool
		c string
	}{{m.Private, "p"}, {m.Secret, "s"}, {m.ProtectedTopic, "t"}, {m.NoExternalMsg, "n"},
		{m.Moderated, "m"}, {m.InviteOnly, "i"}, {m.OperOnly, "O"}, {m.SSLOnly, "z"},
		{m.Registered, "r"}, {m.AllSSL, "Z"}} {
		if f.b {
			s += f.c
		}
	}
	return sortChars(s)
}

func privChars(p *state.ChanPrivs) string {
	if p == nil {
		return "<nil>"
	}
	s := ""
	if p.Owner {
		s += "q"
	}
	if p.Admin {
		s += "a"
	}
	if p.Op {
		s += "o"
	}
	if p.HalfOp {
		s += "h"
	}
	if p.Voice {
		s += "v"
	}
	return sortChars(s)
}

// NickVOf / ChanVOf project implementation snapshots.
func NickVOf(n *state.Nick) NickV {
	v := NickV{Nick: n.Nick, Ident: n.Ident, Host: n.Host, Name: n.Name,
		Modes: nickModeChars(n.Modes), Chans: map[string]string{}}
	for c, p := range n.Channels {
		v.Chans[c] = privChars(p)
	}
	return v
}

func ChanVOf(c *state.Channel) ChanV {
	v := ChanV{Name: c.Name, Topic: c.Topic, Flags: chanFlagChars(c.Modes), Nicks: map[string]string{}}
	if c.Modes != nil {
		v.Key, v.Limit = c.Modes.Key, c.Modes.Limit
	}
	for n, p := range c.Nicks {
		v.Nicks[n] = privChars(p)
	}
	return v
}

// ViewOfTracker queries the tracker for every name of the universe through
// the public interface only: GetNick, GetChannel, IsOn, Me. Besides the
// snapshots it cross-checks IsOn against the snapshots' membership maps.
func ViewOfTracker(st state.Tracker, nicks, chans []string) (View, error) {
	v := View{Nicks: map[string]NickV{}, Chans: map[string]ChanV{}}
	me := st.Me()
	if me == nil {
		return v, fmt.Errorf("Me() returned nil")
	}
	v.Me = me.Nick
	for _, n := range nicks {
		if nk := st.GetNick(n); nk != nil {
			v.Nicks[n] = NickVOf(nk)
			if nk.Nick != n {
				return v, fmt.Errorf("GetNick(%q) returned a snapshot named %q", n, nk.Nick)
			}
		}
	}
	if mv, ok := v.Nicks[me.Nick]; !ok {
		return v, fmt.Errorf("Me() = %q but GetNick(%q) is nil", me.Nick, me.Nick)
	} else if !equalJSON(mv, NickVOf(me)) {
		return v, fmt.Errorf("Me() = %+v differs from GetNick(me) = %+v", NickVOf(me), mv)
	}
	for _, c := range chans {
		if ch := st.GetChannel(c); ch != nil {
			v.Chans[c] = ChanVOf(ch)
			if ch.Name != c {
				return v, fmt.Errorf("GetChannel(%q) returned a snapshot named %q", c, ch.Name)
			}
		}
	}
	for _, c := range chans {
		for _, n := range nicks {
			p, ok := st.IsOn(c, n)
			cv, cok := v.Chans[c]
			nv, nok := v.Nicks[n]
			var cp, np string
			var cin, nin bool
			if cok {
				cp, cin = cv.Nicks[n]
			}
			if nok {
				np, nin = nv.Chans[c]
			}
			if ok != cin || ok != nin || (ok && (privChars(p) != cp || cp != np)) {
				return v, fmt.Errorf("IsOn(%q,%q) = (%s,%v) but channel snapshot says (%q,%v) and nick snapshot says (%q,%v)",
					c, n, privChars(p), ok, cp, cin, np, nin)
			}
		}
	}
	return v, nil
}

func equalJSON(a, b interface{}) bool {
	x, _ := json.Marshal(a)
	y, _ := json.Marshal(b)
	return string(x) == string(y)
}
