package trk

import (
	"encoding/json"
	"fmt"
	"strings"

	"github.com/fluffle/goirc/state"
)

// Res is the canonical form of a call's result, for model and implementation.
type Res struct {
	K     string // nil | nick | chan | privs | ison | none
	Nick  *NickV `json:",omitempty"`
	Chan  *ChanV `json:",omitempty"`
	Privs string `json:",omitempty"`
	Ok    bool   `json:",omitempty"`
}

func ResOfSpec(r *SpecRes) Res {
	switch r.K {
	case "nick":
		return Res{K: "nick", Nick: &NickV{Nick: r.Nick, Ident: r.Ident, Host: r.Host, Name: r.Name,
			Modes: r.Modes.chars(), Chans: privMap(r.Chans)}}
	case "chan":
		return Res{K: "chan", Chan: &ChanV{Name: r.Name, Topic: r.Topic, Flags: r.Flags.chars(),
			Key: r.Key, Limit: r.Limit, Nicks: privMap(r.Nicks)}}
	case "privs":
		return Res{K: "privs", Privs: r.Privs.chars()}
	case "ison":
		if r.Ok {
			return Res{K: "ison", Ok: true, Privs: r.Privs.chars()}
		}
		return Res{K: "ison"}
	}
	return Res{K: r.K}
}

func str(m json.RawMessage) string {
	var s string
	if err := json.Unmarshal(m, &s); err != nil {
		panic(fmt.Sprintf("argument %s is not a string", m))
	}
	return s
}

func strs(m json.RawMessage) []string {
	var s []string
	if err := json.Unmarshal(m, &s); err != nil {
		panic(fmt.Sprintf("argument %s is not a list of strings", m))
	}
	return s
}

// Call is one operation in Go terms.
type Call struct {
	Op   string
	Args []string // flattened: mode strings joined; ChannelModes args appended
}

func CallOfSpec(o *SpecOp) Call {
	c := Call{Op: o.Op}
	switch o.Op {
	case "NickModes":
		c.Args = []string{str(o.Args[0]), strings.Join(strs(o.Args[1]), "")}
	case "ChannelModes":
		c.Args = append([]string{str(o.Args[0]), strings.Join(strs(o.Args[1]), "")}, strs(o.Args[2])...)
	default:
		for _, a := range o.Args {
			c.Args = append(c.Args, str(a))
		}
	}
	return c
}

func nickRes(n *state.Nick) (Res, interface{}) {
	if n == nil {
		return Res{K: "nil"}, nil
	}
	v := NickVOf(n)
	return Res{K: "nick", Nick: &v}, n
}

func chanRes(c *state.Channel) (Res, interface{}) {
	if c == nil {
		return Res{K: "nil"}, nil
	}
	v := ChanVOf(c)
	return Res{K: "chan", Chan: &v}, c
}

// Apply performs the call on the real tracker and returns the canonical
// result plus the returned object itself (nil if none) for the snapshot checks.
func Apply(st state.Tracker, c Call) (Res, interface{}) {
	a := c.Args
	switch c.Op {
	case "NewNick":
		return nickRes(st.NewNick(a[0]))
	case "GetNick":
		return nickRes(st.GetNick(a[0]))
	case "ReNick":
		return nickRes(st.ReNick(a[0], a[1]))
	case "DelNick":
		return nickRes(st.DelNick(a[0]))
	case "NickInfo":
		return nickRes(st.NickInfo(a[0], a[1], a[2], a[3]))
	case "NickModes":
		return nickRes(st.NickModes(a[0], a[1]))
	case "NewChannel":
		return chanRes(st.NewChannel(a[0]))
	case "GetChannel":
		return chanRes(st.GetChannel(a[0]))
	case "DelChannel":
		return chanRes(st.DelChannel(a[0]))
	case "Topic":
		return chanRes(st.Topic(a[0], a[1]))
	case "ChannelModes":
		return chanRes(st.ChannelModes(a[0], a[1], a[2:]...))
	case "Me":
		return nickRes(st.Me())
	case "IsOn":
		p, ok := st.IsOn(a[0], a[1])
		if !ok {
			return Res{K: "ison"}, nil
		}
		return Res{K: "ison", Ok: true, Privs: privChars(p)}, p
	case "Associate":
		p := st.Associate(a[0], a[1])
		if p == nil {
			return Res{K: "nil"}, nil
		}
		return Res{K: "privs", Privs: privChars(p)}, p
	case "Dissociate":
		st.Dissociate(a[0], a[1])
		return Res{K: "none"}, nil
	case "Wipe":
		st.Wipe()
		return Res{K: "none"}, nil
	case "String":
		// the debug rendering of the whole tracker: a read of everything (its text is not modelled)
		_ = st.String()
		return Res{K: "none"}, nil
	}
	panic("unknown tracker operation " + c.Op)
}

// ---- snapshot privacy (C14) -------------------------------------------------

func flipPrivs(p *state.ChanPrivs) {
	if p != nil {
		p.Owner, p.Admin, p.Op, p.HalfOp, p.Voice = !p.Owner, !p.Admin, !p.Op, !p.HalfOp, !p.Voice
	}
}

// Scribble overwrites everything reachable from a returned value.
func Scribble(v interface{}) {
	switch x := v.(type) {
	case *state.Nick:
		x.Nick, x.Ident, x.Host, x.Name = x.Nick+"~s", "~s", "~s", "~s"
		if m := x.Modes; m != nil {
			m.Bot, m.Invisible, m.Oper, m.WallOps, m.HiddenHost, m.SSL =
				!m.Bot, !m.Invisible, !m.Oper, !m.WallOps, !m.HiddenHost, !m.SSL
		}
		for _, p := range x.Channels {
			flipPrivs(p)
		}
		if x.Channels != nil {
			x.Channels["~scribble"] = &state.ChanPrivs{Op: true}
		}
	case *state.Channel:
		x.Name, x.Topic = x.Name+"~s", "~s"
		if m := x.Modes; m != nil {
			m.Private, m.Secret, m.ProtectedTopic, m.NoExternalMsg, m.Moderated =
				!m.Private, !m.Secret, !m.ProtectedTopic, !m.NoExternalMsg, !m.Moderated
			m.InviteOnly, m.OperOnly, m.SSLOnly, m.Registered, m.AllSSL =
				!m.InviteOnly, !m.OperOnly, !m.SSLOnly, !m.Registered, !m.AllSSL
			m.Key, m.Limit = m.Key+"~s", m.Limit+1000
		}
		for _, p := range x.Nicks {
			flipPrivs(p)
		}
		if x.Nicks != nil {
			x.Nicks["~scribble"] = &state.ChanPrivs{Voice: true}
		}
	case *state.ChanPrivs:
		flipPrivs(x)
	}
}

// Freeze serialises a returned value completely (for "later tracker changes
// never alter a value returned earlier").
func Freeze(v interface{}) string {
	switch x := v.(type) {
	case *state.Nick:
		b, _ := json.Marshal(NickVOf(x))
		return string(b)
	case *state.Channel:
		b, _ := json.Marshal(ChanVOf(x))
		return string(b)
	case *state.ChanPrivs:
		return privChars(x)
	}
	return ""
}
