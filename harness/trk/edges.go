package trk

import (
	"bufio"
	"encoding/json"
	"flag"
	"fmt"
	"io"
	"os"
	"sort"
	"strconv"
	"strings"
	"time"

	"github.com/fluffle/goirc/state"
)

type node struct {
	parent string // key of predecessor state ("" for the initial state)
	call   Call
	depth  int
}

type kept struct {
	v      interface{}
	frozen string
	step   string
}

// Failure is written as the replay artefact of a mismatch.
type Failure struct {
	Property string      `json:"property"`
	Kind     string      `json:"kind"`
	Me0      string      `json:"me0"`
	Path     []Call      `json:"path"`
	Call     Call        `json:"call"`
	Expected interface{} `json:"expected"`
	Got      interface{} `json:"got"`
	Detail   string      `json:"detail"`
}

// Summary is printed as the last line of stdout ("SUMMARY {...}").
type Summary struct {
	Edges        int            `json:"edges"`
	States       int            `json:"states"`
	Chains       int            `json:"chains"`
	OpCounts     map[string]int `json:"op_counts"`
	Refused      int            `json:"refused_or_noop_edges"`
	Changing     int            `json:"state_changing_edges"`
	Scribbled    int            `json:"values_scribbled"`
	FrozenChecks int            `json:"frozen_value_rechecks"`
	Failures     int            `json:"failures"`
	FailKinds    map[string]int `json:"failure_kinds"`
	FailFiles    []string       `json:"failure_files"`
	Samples      []interface{}  `json:"samples"`
	WallS        float64        `json:"wall_s"`
	Unplaced     int            `json:"edges_with_unknown_source"`
}

type replayer struct {
	me0     string
	nodes   map[string]*node
	nicks   map[string]bool
	chans   map[string]bool
	cur     state.Tracker
	curKey  string
	curKept []kept
	sum     Summary
	outDir  string
	maxFail int
	scrib   bool
}

func (r *replayer) universe() (n, c []string) {
	for k := range r.nicks {
		n = append(n, k)
	}
	for k := range r.chans {
		c = append(c, k)
	}
	sort.Strings(n)
	sort.Strings(c)
	return
}

func (r *replayer) learnNames(v View, c Call) {
	for n := range v.Nicks {
		r.nicks[n] = true
	}
	for ch := range v.Chans {
		r.chans[ch] = true
	}
	a := c.Args
	switch c.Op {
	case "NewNick", "GetNick", "DelNick", "NickInfo", "NickModes":
		r.nicks[a[0]] = true
	case "ReNick":
		r.nicks[a[0]], r.nicks[a[1]] = true, true
	case "NewChannel", "GetChannel", "DelChannel", "Topic":
		r.chans[a[0]] = true
	case "ChannelModes":
		r.chans[a[0]] = true
		for _, x := range a[2:] {
			r.nicks[x] = true
		}
	case "IsOn", "Associate", "Dissociate":
		r.chans[a[0]], r.nicks[a[1]] = true, true
	}
}

func (r *replayer) path(key string) []Call {
	var p []Call
	for k := key; ; {
		n := r.nodes[k]
		if n == nil || n.parent == "" && n.depth == 0 {
			break
		}
		p = append(p, n.call)
		k = n.parent
	}
	for i, j := 0, len(p)-1; i < j; i, j = i+1, j-1 {
		p[i], p[j] = p[j], p[i]
	}
	return p
}

func (r *replayer) fail(kind string, from string, c Call, exp, got interface{}, detail string) {
	r.sum.Failures++
	r.sum.FailKinds[kind]++
	if r.sum.Failures > r.maxFail {
		return
	}
	f := Failure{Property: "C12", Kind: kind, Me0: r.me0, Path: r.path(from), Call: c, Expected: exp, Got: got, Detail: detail}
	if strings.HasPrefix(kind, "snapshot") {
		f.Property = "C14"
	}
	name := fmt.Sprintf("%s/trk-fail-%03d.json", r.outDir, r.sum.Failures)
	b, _ := json.MarshalIndent(f, "", " ")
	if err := os.WriteFile(name, b, 0o644); err == nil {
		r.sum.FailFiles = append(r.sum.FailFiles, name)
	}
	fmt.Printf("MISMATCH kind=%s call=%v detail=%s file=%s\n", kind, c, detail, name)
}

// build drives a fresh tracker along the spanning-tree path to the state key.
func (r *replayer) build(key string) state.Tracker {
	st := state.NewTracker(r.me0)
	for _, c := range r.path(key) {
		Apply(st, c)
	}
	return st
}

func (r *replayer) edge(e *Edge) bool {
	if e.T == nil {
		e.T = &e.F
	}
	fv, tv := ViewOfSpec(&e.F), ViewOfSpec(e.T)
	fk, tk := fv.Key(), tv.Key()
	if _, ok := r.nodes[fk]; !ok {
		return false
	}
	call := CallOfSpec(&e.O)
	r.learnNames(fv, call)
	r.learnNames(tv, call)
	r.sum.Edges++
	r.sum.OpCounts[call.Op]++
	if fk == tk {
		r.sum.Refused++
	} else {
		r.sum.Changing++
	}
	if _, ok := r.nodes[tk]; !ok {
		r.nodes[tk] = &node{parent: fk, call: call, depth: r.nodes[fk].depth + 1}
		r.sum.States++
	}
	if r.cur == nil || r.curKey != fk {
		r.cur = r.build(fk)
		r.curKey = fk
		r.curKept = r.curKept[:0]
		r.sum.Chains++
		nn, cc := r.universe()
		if got, err := ViewOfTracker(r.cur, nn, cc); err != nil || got.Key() != fk {
			// the spanning-tree path does not lead to the source state: an
			// earlier edge already failed; do not report it twice.
			r.cur = nil
			return true
		}
	}
	want := ResOfSpec(&e.O.Res)
	got, obj := Apply(r.cur, call)
	r.curKey = tk
	if !equalJSON(want, got) {
		r.fail("result", fk, call, want, got, "returned value differs from the model")
	}
	if obj != nil && r.scrib {
		Scribble(obj)
		r.sum.Scribbled++
		r.curKept = append(r.curKept, kept{obj, Freeze(obj), fmt.Sprint(call)})
		if len(r.curKept) > 24 {
			r.curKept = r.curKept[1:]
		}
	}
	nn, cc := r.universe()
	gotV, err := ViewOfTracker(r.cur, nn, cc)
	if err != nil {
		r.fail("projection", fk, call, tv, gotV, err.Error())
		r.cur = nil
	} else if gotV.Key() != tk {
		kind := "state"
		if r.scrib && obj != nil {
			// decide whether the scribble or the operation caused it
			chk := r.build(fk)
			Apply(chk, call)
			if v2, err2 := ViewOfTracker(chk, nn, cc); err2 == nil && v2.Key() == tk {
				kind = "snapshot-aliases-tracker"
			}
		}
		r.fail(kind, fk, call, tv, gotV, "tracker state after the call differs from the model")
		r.cur = nil
	}
	for _, k := range r.curKept {
		r.sum.FrozenChecks++
		if Freeze(k.v) != k.frozen {
			r.fail("snapshot-changed-later", fk, call, k.frozen, Freeze(k.v), "a value returned earlier by "+k.step+" changed after this call")
			r.curKept = r.curKept[:0]
			break
		}
	}
	if len(r.sum.Samples) < 3 && fk != tk && r.nodes[fk].depth >= 2 {
		r.sum.Samples = append(r.sum.Samples, map[string]interface{}{"path": r.path(fk), "call": call, "result": got, "state_after": gotV})
	}
	return true
}

// RunEdges reads TLC output with EDGE lines on stdin.
func RunEdges(args []string) int {
	fs := flag.NewFlagSet("trk-edges", flag.ExitOnError)
	me0 := fs.String("me", "a", "initial own nick (Me0)")
	out := fs.String("out", ".", "directory for failure artefacts")
	maxFail := fs.Int("maxfail", 5, "failure artefacts to keep")
	noScrib := fs.Bool("noscribble", false, "do not scribble over returned values")
	replay := fs.String("replay", "", "re-run one failure artefact instead of reading edges")
	fs.Parse(args)
	if *replay != "" {
		return runReplay(*replay)
	}
	start := time.Now()
	r := &replayer{me0: *me0, nodes: map[string]*node{}, nicks: map[string]bool{*me0: true}, chans: map[string]bool{},
		outDir: *out, maxFail: *maxFail, scrib: !*noScrib}
	r.sum.OpCounts = map[string]int{}
	r.sum.FailKinds = map[string]int{}
	init := View{Me: *me0, Nicks: map[string]NickV{*me0: {Nick: *me0, Chans: map[string]string{}}}, Chans: map[string]ChanV{}}
	r.nodes[init.Key()] = &node{}
	r.sum.States = 1
	var pending []*Edge
	in := bufio.NewReaderSize(os.Stdin, 1<<20)
	other := 0
	for {
		line, err := in.ReadString('\n')
		if len(line) > 0 {
			if strings.HasPrefix(line, "\"EDGE ") {
				s, uerr := strconv.Unquote(strings.TrimSpace(line))
				if uerr != nil {
					fmt.Fprintf(os.Stderr, "cannot unquote edge line: %v\n", uerr)
					return 2
				}
				var e Edge
				if jerr := json.Unmarshal([]byte(s[5:]), &e); jerr != nil {
					fmt.Fprintf(os.Stderr, "cannot parse edge: %v: %.200s\n", jerr, s)
					return 2
				}
				if !r.edge(&e) {
					pending = append(pending, &e)
				}
			} else {
				// pass TLC's own output through for the caller to parse
				fmt.Print("TLC: " + line)
				other++
			}
		}
		if err == io.EOF {
			break
		}
		if err != nil {
			fmt.Fprintln(os.Stderr, err)
			return 2
		}
	}
	for progress := true; progress && len(pending) > 0; {
		progress = false
		var rest []*Edge
		for _, e := range pending {
			if r.edge(e) {
				progress = true
			} else {
				rest = append(rest, e)
			}
		}
		pending = rest
	}
	r.sum.Unplaced = len(pending)
	r.sum.WallS = time.Since(start).Seconds()
	b, _ := json.Marshal(r.sum)
	fmt.Println("SUMMARY " + string(b))
	if r.sum.Failures > 0 {
		return 1
	}
	return 0
}

func runReplay(file string) int {
	b, err := os.ReadFile(file)
	if err != nil {
		fmt.Fprintln(os.Stderr, err)
		return 2
	}
	var f Failure
	if err := json.Unmarshal(b, &f); err != nil {
		fmt.Fprintln(os.Stderr, err)
		return 2
	}
	st := state.NewTracker(f.Me0)
	for _, c := range f.Path {
		res, _ := Apply(st, c)
		rb, _ := json.Marshal(res)
		fmt.Printf("  %v -> %s\n", c, rb)
	}
	res, obj := Apply(st, f.Call)
	rb, _ := json.Marshal(res)
	eb, _ := json.Marshal(f.Expected)
	fmt.Printf("CALL %v\n  got      %s\n  expected %s (kind=%s)\n", f.Call, rb, eb, f.Kind)
	if obj != nil {
		Scribble(obj)
	}
	fmt.Println(st.String())
	if f.Kind == "result" && string(rb) == string(eb) {
		return 0
	}
	return 1
}
