package trk

import (
	"bufio"
	"encoding/json"
	"flag"
	"fmt"
	"math/rand"
	"os"
	"runtime"
	"sort"
	"strings"
	"sync"
	"time"

	"github.com/fluffle/goirc/logging"
	"github.com/fluffle/goirc/state"
)

// ---- recording of (possibly concurrent) histories for TrackerTrace.tla ----

type histEvent struct {
	Ev   string
	T    int
	Op   string
	Args []interface{}
	Res  interface{}
}

func (e histEvent) MarshalJSON() ([]byte, error) {
	switch e.Ev {
	case "call":
		return json.Marshal(map[string]interface{}{"ev": e.Ev, "t": e.T, "op": e.Op, "args": e.Args})
	case "ret":
		return json.Marshal(map[string]interface{}{"ev": e.Ev, "t": e.T, "res": e.Res})
	}
	return json.Marshal(map[string]interface{}{"ev": e.Ev})
}

type histLog struct {
	mu sync.Mutex
	w  *bufio.Writer
	n  int
}

func (h *histLog) add(e histEvent) {
	b, _ := json.Marshal(e)
	h.mu.Lock()
	h.w.Write(b)
	h.w.WriteByte('\n')
	h.n++
	h.mu.Unlock()
}

func chars(s string) []string {
	if s == "" {
		return []string{}
	}
	return strings.Split(s, "")
}

func privJSON(m map[string]string) map[string][]string {
	r := map[string][]string{}
	for k, v := range m {
		r[k] = chars(v)
	}
	return r
}

// resJSON is the logged form of a result, matching TrackerTrace!ResEq.
func resJSON(r Res) interface{} {
	switch r.K {
	case "nick":
		n := r.Nick
		return map[string]interface{}{"k": "nick", "nick": n.Nick, "ident": n.Ident, "host": n.Host, "name": n.Name,
			"modes": chars(n.Modes), "chans": privJSON(n.Chans)}
	case "chan":
		c := r.Chan
		return map[string]interface{}{"k": "chan", "name": c.Name, "topic": c.Topic, "flags": chars(c.Flags),
			"key": c.Key, "limit": c.Limit, "nicks": privJSON(c.Nicks)}
	case "privs":
		return map[string]interface{}{"k": "privs", "privs": chars(r.Privs)}
	case "ison":
		if r.Ok {
			return map[string]interface{}{"k": "ison", "ok": true, "privs": chars(r.Privs)}
		}
		return map[string]interface{}{"k": "ison", "ok": false}
	}
	return map[string]interface{}{"k": r.K}
}

func argsJSON(c Call) []interface{} {
	var a []interface{}
	switch c.Op {
	case "NickModes":
		a = []interface{}{c.Args[0], chars(c.Args[1])}
	case "ChannelModes":
		rest := c.Args[2:]
		if rest == nil {
			rest = []string{}
		}
		a = []interface{}{c.Args[0], chars(c.Args[1]), rest}
	default:
		for _, x := range c.Args {
			a = append(a, x)
		}
	}
	if a == nil {
		a = []interface{}{}
	}
	return a
}

type universe struct {
	nicks, chans, topics, limits []string
	infos                        [][3]string
	nmodes, cflags               []string
}

func (u *universe) randCall(r *rand.Rand) Call {
	n := func() string { return u.nicks[r.Intn(len(u.nicks))] }
	c := func() string { return u.chans[r.Intn(len(u.chans))] }
	switch k := r.Intn(100); {
	case k < 10:
		return Call{"NewNick", []string{n()}}
	case k < 14:
		return Call{"GetNick", []string{n()}}
	case k < 22:
		return Call{"ReNick", []string{n(), n()}}
	case k < 27:
		return Call{"DelNick", []string{n()}}
	case k < 31:
		i := u.infos[r.Intn(len(u.infos))]
		return Call{"NickInfo", []string{n(), i[0], i[1], i[2]}}
	case k < 35:
		return Call{"NickModes", []string{n(), u.nmodes[r.Intn(len(u.nmodes))]}}
	case k < 43:
		return Call{"NewChannel", []string{c()}}
	case k < 47:
		return Call{"GetChannel", []string{c()}}
	case k < 50:
		return Call{"DelChannel", []string{c()}}
	case k < 53:
		return Call{"Topic", []string{c(), u.topics[r.Intn(len(u.topics))]}}
	case k < 65:
		// one or two mode changes; never an argument-taking mode after "-k" or
		// after a privilege change (whose consumption the property leaves open
		// when the nick is not on the channel)
		ms, args := "", []string{}
		sign := "+"
		if r.Intn(3) == 0 {
			sign = "-"
		}
		ms += sign
		for i, m := 0, 1+r.Intn(3); i < m; i++ {
			if r.Intn(4) == 0 {
				if sign == "+" {
					sign = "-"
				} else {
					sign = "+"
				}
				ms += sign
			}
			switch x := r.Intn(11); {
			case x == 10:
				// a list mode and its mask (sometimes a name that is also a nick)
				ms += string("beI"[r.Intn(3)])
				if r.Intn(4) == 0 {
					args = append(args, n())
				} else {
					args = append(args, "*!*@bad.host")
				}
			case x < 4:
				ms += string(u.cflags[r.Intn(len(u.cflags))][0])
			case x < 5:
				ms += "k"
				if sign == "+" {
					args = append(args, "key"+fmt.Sprint(r.Intn(3)))
				} else {
					i = m // stop: nothing argument-taking may follow -k
				}
			case x < 6:
				ms += "l"
				if sign == "+" {
					args = append(args, u.limits[r.Intn(len(u.limits))])
				}
			default:
				ms += string("qaohv"[r.Intn(5)])
				args = append(args, n())
				i = m // stop after a privilege change
			}
		}
		return Call{"ChannelModes", append([]string{c(), ms}, args...)}
	case k < 67:
		return Call{"Me", nil}
	case k < 73:
		return Call{"IsOn", []string{c(), n()}}
	case k < 88:
		return Call{"Associate", []string{c(), n()}}
	case k < 98:
		return Call{"Dissociate", []string{c(), n()}}
	case k < 99:
		return Call{"String", nil}
	default:
		return Call{"Wipe", nil}
	}
}

type slowLogger struct{}

func (slowLogger) Debug(string, ...interface{}) {}
func (slowLogger) Info(string, ...interface{})  {}
func (slowLogger) Warn(f string, a ...interface{}) {
	_ = fmt.Sprintf(f, a...)
}
func (slowLogger) Error(f string, a ...interface{}) {
	_ = fmt.Sprintf(f, a...)
	time.Sleep(200 * time.Microsecond)
}

// RunHist records histories of random calls on real trackers.
func RunHist(args []string) int {
	fs := flag.NewFlagSet("trk-hist", flag.ExitOnError)
	out := fs.String("out", "trace.ndjson", "output ND-JSON trace")
	nh := fs.Int("n", 100, "number of histories")
	threads := fs.Int("threads", 3, "maximum number of concurrent callers (1 = sequential)")
	ops := fs.Int("ops", 8, "maximum operations per caller")
	seed := fs.Int64("seed", 1, "seed")
	big := fs.Bool("big", false, "use the large name universe")
	fs.Parse(args)
	f, err := os.Create(*out)
	if err != nil {
		fmt.Fprintln(os.Stderr, err)
		return 2
	}
	defer f.Close()
	h := &histLog{w: bufio.NewWriterSize(f, 1<<20)}
	defer h.w.Flush()
	u := &universe{nicks: []string{"a", "b", "c", ""}, chans: []string{"#x", "#y", ""},
		topics: []string{"", "t1", "a topic: two"}, limits: []string{"5", "12", "x", "-3", "0"},
		infos:  [][3]string{{"id", "ho.st", "Real Name"}, {"", "h2", ""}, {"i3", "", "n 3"}},
		nmodes: []string{"+i", "-i", "+Bow", "-o+xz", "i", "+Qz", "-Bwxz"},
		cflags: []string{"p", "s", "t", "n", "m", "i", "O", "z", "r", "Z", "X"}}
	if *big {
		for i := 0; i < 12; i++ {
			u.nicks = append(u.nicks, fmt.Sprintf("nick%d", i))
		}
		for i := 0; i < 6; i++ {
			u.chans = append(u.chans, fmt.Sprintf("#chan%d", i))
		}
	}
	// a logger that takes its time: whatever the tracker logs while it works must not open a window for other callers
	logging.SetLogger(slowLogger{})
	defer logging.SetLogger(nil)
	rng := rand.New(rand.NewSource(*seed))
	opCount := map[string]int{}
	calls := 0
	var sample []histEvent
	for i := 0; i < *nh; i++ {
		h.add(histEvent{Ev: "reset"})
		st := state.NewTracker("a")
		// a sequential prefix builds some state, then the callers race
		nt := 1 + rng.Intn(*threads)
		if *threads > 1 && nt < 2 {
			nt = 2
		}
		plans := make([][]Call, nt)
		pre := rng.Intn(6)
		for j := 0; j < pre; j++ {
			c := u.randCall(rng)
			h.add(histEvent{Ev: "call", T: 0, Op: c.Op, Args: argsJSON(c)})
			res, _ := Apply(st, c)
			h.add(histEvent{Ev: "ret", T: 0, Res: resJSON(res)})
			opCount[c.Op]++
			calls++
		}
		for t := range plans {
			for j, m := 0, 1+rng.Intn(*ops); j < m; j++ {
				plans[t] = append(plans[t], u.randCall(rng))
			}
		}
		if *threads > 1 && i%5 == 4 {
			// multi-step operations must be atomic too: the client is put on many channels (with one other nick
			// on some), then Wipe / DelNick / ReNick race with observers of the whole state
			nch := 12 + rng.Intn(8)
			var setup []Call
			setup = append(setup, Call{"NewNick", []string{"b"}})
			for k := 0; k < nch; k++ {
				cn := fmt.Sprintf("#w%d", k)
				setup = append(setup, Call{"NewChannel", []string{cn}})
				if k%4 != 1 {
					setup = append(setup, Call{"Associate", []string{cn, "a"}})
				}
				if k%3 == 0 || k%4 == 1 {
					// (k%4 == 1: a channel without the client, "b" its only member)
					setup = append(setup, Call{"Associate", []string{cn, "b"}})
				}
			}
			for _, c := range setup {
				h.add(histEvent{Ev: "call", T: 0, Op: c.Op, Args: argsJSON(c)})
				res, _ := Apply(st, c)
				h.add(histEvent{Ev: "ret", T: 0, Res: resJSON(res)})
				opCount[c.Op]++
				calls++
			}
			big := []Call{{"Wipe", nil}, {"DelNick", []string{"b"}}, {"ReNick", []string{"a", "c"}}, {"ReNick", []string{"b", "c"}}}[rng.Intn(4)]
			obs := func() []Call {
				var l []Call
				for k, m := 0, 3+rng.Intn(4); k < m; k++ {
					switch rng.Intn(4) {
					case 0:
						l = append(l, Call{"Me", nil})
					case 1:
						l = append(l, Call{"GetNick", []string{"b"}})
					case 2:
						l = append(l, Call{"GetChannel", []string{fmt.Sprintf("#w%d", rng.Intn(nch))}})
					default:
						l = append(l, Call{"IsOn", []string{fmt.Sprintf("#w%d", rng.Intn(nch)), []string{"a", "b", "c"}[rng.Intn(3)]}})
					}
				}
				return l
			}
			plans = [][]Call{{big}, obs(), obs()}
			nt = 3
		}
		var wg sync.WaitGroup
		seeds := make([]int64, nt)
		for t := range seeds {
			seeds[t] = rng.Int63()
		}
		start := make(chan struct{})
		for t := range plans {
			wg.Add(1)
			go func(t int) {
				defer wg.Done()
				<-start
				lr := rand.New(rand.NewSource(seeds[t]))
				for _, c := range plans[t] {
					h.add(histEvent{Ev: "call", T: t, Op: c.Op, Args: argsJSON(c)})
					// widen the call window now and then so that windows of
					// different callers overlap
					switch lr.Intn(4) {
					case 0:
						runtime.Gosched()
					case 1:
						time.Sleep(time.Duration(lr.Intn(30)) * time.Microsecond)
					}
					res, _ := Apply(st, c)
					h.add(histEvent{Ev: "ret", T: t, Res: resJSON(res)})
				}
			}(t)
		}
		close(start)
		wg.Wait()
		for t := range plans {
			for _, c := range plans[t] {
				opCount[c.Op]++
				calls++
			}
		}
		if i == 0 {
			for t := range plans {
				for _, c := range plans[t] {
					sample = append(sample, histEvent{Ev: "call", T: t, Op: c.Op, Args: argsJSON(c)})
				}
			}
		}
	}
	keys := make([]string, 0, len(opCount))
	for k := range opCount {
		keys = append(keys, k)
	}
	sort.Strings(keys)
	b, _ := json.Marshal(map[string]interface{}{"histories": *nh, "calls": calls, "events": h.n, "op_counts": opCount, "sample_history_calls": sample})
	fmt.Println("SUMMARY " + string(b))
	return 0
}
