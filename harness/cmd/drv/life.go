package main

import "verifharness/life"

func init() {
	register("conn-life", "C06/C07: lifecycle scenario families of Conn.tla on the real client", life.RunLife)
}
