package main

import "verifharness/logpw"

func init() {
	register("logpw", "C20: capture every log record of sessions that use a connection password", logpw.RunLog)
}
