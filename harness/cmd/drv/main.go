// drv is the single driver binary of the verification harness. Each
// sub-command binds one TLA+ specification to the real fluffle/goirc code.
package main

import (
	"fmt"
	"os"
	"sort"
)

type command struct {
	help string
	run  func(args []string) int
}

var commands = map[string]command{}

func register(name, help string, run func(args []string) int) {
	commands[name] = command{help, run}
}

func main() {
	if len(os.Args) < 2 {
		usage()
		os.Exit(2)
	}
	c, ok := commands[os.Args[1]]
	if !ok {
		usage()
		os.Exit(2)
	}
	os.Exit(c.run(os.Args[2:]))
}

func usage() {
	names := make([]string, 0, len(commands))
	for n := range commands {
		names = append(names, n)
	}
	sort.Strings(names)
	fmt.Fprintln(os.Stderr, "usage: drv <command> [flags]")
	for _, n := range names {
		fmt.Fprintf(os.Stderr, "  %-14s %s\n", n, commands[n].help)
	}
}
