package main

import "verifharness/caps"

func init() {
	register("caps-edges", "replay TLC state-graph edges of Caps.tla on a real client (C19)", caps.RunEdges)
}
