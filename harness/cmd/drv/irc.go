package main

import "verifharness/irc"

func init() {
	register("irc-parse", "replay MCIrcLine messages on ParseLine and over a connection (stdin: TLC output)", irc.RunParse)
	register("irc-one", "re-check one saved C01/C02 finding", irc.RunOne)
	register("irc-sweep", "C02: exhaustive byte-string sweep of the parser + survival of real connections", irc.RunSweep)
	register("irc-survive", "(child process of irc-sweep) one survival session", irc.RunSurviveChild)
	register("irc-gen", "draw random well-formed messages, log components + delivered lines for IrcLineTrace.tla", irc.RunGen)
	register("irc-conn", "(child process of irc-parse / irc-sweep) one connection-level replay batch", irc.RunConnChild)
}
