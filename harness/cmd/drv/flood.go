package main

import "verifharness/flood"

func init() {
	register("flood-edges", "C10: replay TLC edges of Flood.tla on the real rateLimit (stdin: TLC output)", flood.RunEdges)
	register("flood-timed", "C10: timed end-to-end sessions recorded for FloodTrace.tla", flood.RunTimed)
}
