package main

import "verifharness/netw"

func init() {
	register("net-edges", "replay TLC state-graph edges of Network.tla on a real client (C13, C17)", netw.RunEdges)
	register("net-soup", "arbitrary line soups on a tracked client + default nick generator sweep, recorded for RobustTrace.tla", netw.RunSoup)
}
