package main

import "verifharness/phases"

func init() {
	register("phases", "C03/C05/C16: record handler events of witness sessions for PhasesTrace.tla", phases.RunPhases)
}
