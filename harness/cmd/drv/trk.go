package main

import "verifharness/trk"

func init() {
	register("trk-edges", "replay TLC state-graph edges of Tracker.tla on state.NewTracker (stdin: TLC output)", trk.RunEdges)
	register("trk-hist", "record sequential/concurrent call histories of real trackers for TrackerTrace.tla", trk.RunHist)
}
