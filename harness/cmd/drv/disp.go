package main

import "verifharness/disp"

func init() {
	register("disp-edges", "replay TLC state-graph edges of Dispatch.tla on a real client (stdin: TLC output)", disp.RunEdges)
}
