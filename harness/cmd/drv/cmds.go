package main

import "verifharness/cmds"

func init() {
	register("cmd-calls", "execute command-method calls (TLC's CALL lines on stdin, plus random ones) and record the wire bytes per call", cmds.RunCalls)
}
