package main

import "verifharness/reg"

func init() {
	register("reg-cfgs", "C18: run the configurations of MCRegistration.tla on a real client (dial address, burst, PONG, PING)", reg.RunCfgs)
}
