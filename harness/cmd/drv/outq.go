package main

import "verifharness/outq"

func init() {
	register("conn-out", "C09: concurrent senders through a real connection, wire transcript recorded for OutTrace.tla", outq.RunOut)
}
