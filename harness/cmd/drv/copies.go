package main

import "verifharness/copies"

func init() {
	register("copies", "C15: storage identity and content of the line every handler invocation receives", copies.RunCopies)
}
