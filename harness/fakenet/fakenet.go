// Package fakenet is an in-memory net.Conn with a scripted server side, handed
// to client.Conn.Connect() through a golang.org/x/net/proxy dialer type
// ("verif://<network name>"), which also exposes the address that was dialled.
package fakenet

import (
	"bytes"
	"context"
	"errors"
	"fmt"
	"io"
	"net"
	"net/url"
	"strings"
	"sync"
	"time"

	"golang.org/x/net/proxy"
)

// ErrPeerGone is returned by a Write that would block after the server side
// has closed or failed.
var ErrPeerGone = errors.New("fakenet: broken pipe (peer has gone away)")

// ErrClosed is returned by operations on a closed Conn.
var ErrClosed = errors.New("fakenet: use of closed connection")

// WriteRec is one Write call of the client.
type WriteRec struct {
	At   time.Time
	Data []byte
}

type chunk struct {
	data []byte
	err  error // delivered after data (io.EOF or a fault); nil for plain data
	once bool  // the error is returned by one Read only (a transient fault), then reading goes on
}

// tempError is a net.Error that calls itself temporary.
type tempError struct{}

func (tempError) Error() string   { return "fakenet: resource temporarily unavailable" }
func (tempError) Timeout() bool   { return false }
func (tempError) Temporary() bool { return true }

// TempError makes one Read (after the data queued so far) fail with a transient error.
func (c *Conn) TempError() {
	c.mu.Lock()
	c.inq = append(c.inq, chunk{err: tempError{}, once: true})
	c.cond.Broadcast()
	c.mu.Unlock()
}

// Conn is the client's end of the fake socket.
type Conn struct {
	mu   sync.Mutex
	cond *sync.Cond

	inq      []chunk // what the server has sent and the client has not read yet
	closed   bool    // closed by the client
	closedCh chan struct{}

	writes    []WriteRec
	wbytes    bytes.Buffer
	budget    int // bytes the server is still willing to take; <0: unlimited
	nwrites   int
	failWrite map[int]error // n-th Write call (1-based, counted from creation) fails
	nreads    int
	notify    chan struct{}
	peerGone  bool

	Addr string // address that was dialled
}

// NewConn returns a connected socket whose server side is idle.
func NewConn() *Conn {
	c := &Conn{budget: -1, closedCh: make(chan struct{}), failWrite: map[int]error{}}
	c.cond = sync.NewCond(&c.mu)
	return c
}

// ---- client side: net.Conn -------------------------------------------------

func (c *Conn) Read(p []byte) (int, error) {
	c.mu.Lock()
	defer c.mu.Unlock()
	for {
		if c.closed {
			return 0, ErrClosed
		}
		if len(c.inq) > 0 {
			ch := &c.inq[0]
			if len(ch.data) > 0 {
				n := copy(p, ch.data)
				ch.data = ch.data[n:]
				if len(ch.data) == 0 && ch.err == nil {
					c.inq = c.inq[1:]
				}
				c.nreads++
				return n, nil
			}
			if ch.err != nil {
				err := ch.err
				if ch.once {
					c.inq = c.inq[1:]
				}
				// other errors are sticky
				c.nreads++
				return 0, err
			}
			c.inq = c.inq[1:]
			continue
		}
		c.cond.Wait()
	}
}

func (c *Conn) Write(p []byte) (int, error) {
	c.mu.Lock()
	defer c.mu.Unlock()
	c.nwrites++
	if err, ok := c.failWrite[c.nwrites]; ok {
		return 0, err
	}
	for {
		if c.closed {
			return 0, ErrClosed
		}
		if c.budget < 0 || c.budget >= len(p) {
			break
		}
		if c.peerGone {
			// like TCP: a peer that has gone away does not leave writes
			// blocked for ever, they fail
			return 0, ErrPeerGone
		}
		c.cond.Wait()
	}
	if c.budget >= 0 {
		c.budget -= len(p)
	}
	d := append([]byte(nil), p...)
	c.writes = append(c.writes, WriteRec{At: time.Now(), Data: d})
	c.wbytes.Write(d)
	c.cond.Broadcast()
	c.signal()
	return len(p), nil
}

func (c *Conn) Close() error {
	c.mu.Lock()
	defer c.mu.Unlock()
	if c.closed {
		return ErrClosed
	}
	c.closed = true
	close(c.closedCh)
	c.cond.Broadcast()
	c.signal()
	return nil
}

type addr string

func (a addr) Network() string { return "fake" }
func (a addr) String() string  { return string(a) }

func (c *Conn) LocalAddr() net.Addr                { return addr("local") }
func (c *Conn) RemoteAddr() net.Addr               { return addr(c.Addr) }
func (c *Conn) SetDeadline(t time.Time) error      { return nil }
func (c *Conn) SetReadDeadline(t time.Time) error  { return nil }
func (c *Conn) SetWriteDeadline(t time.Time) error { return nil }

// ---- server side: the script -----------------------------------------------

// Send queues chunks; every Read of the client returns data from one chunk only.
func (c *Conn) Send(chunks ...[]byte) {
	c.mu.Lock()
	for _, d := range chunks {
		if len(d) > 0 {
			c.inq = append(c.inq, chunk{data: append([]byte(nil), d...)})
		}
	}
	c.cond.Broadcast()
	c.mu.Unlock()
}

// SendLines queues each line, CRLF-terminated, as one chunk.
func (c *Conn) SendLines(lines ...string) {
	var cs [][]byte
	for _, l := range lines {
		cs = append(cs, []byte(l+"\r\n"))
	}
	c.Send(cs...)
}

// SendStream queues the lines as one stream cut at the given offsets.
func (c *Conn) SendStream(stream []byte, cuts []int) {
	var cs [][]byte
	prev := 0
	for _, k := range cuts {
		if k > prev && k < len(stream) {
			cs = append(cs, stream[prev:k])
			prev = k
		}
	}
	cs = append(cs, stream[prev:])
	c.Send(cs...)
}

// EOF makes the client's Read return io.EOF once everything queued was read.
func (c *Conn) EOF() { c.Fail(io.EOF) }

// Fail makes the client's Read return err once everything queued was read.
func (c *Conn) Fail(err error) {
	c.mu.Lock()
	c.inq = append(c.inq, chunk{err: err})
	c.peerGone = true
	c.cond.Broadcast()
	c.mu.Unlock()
}

// FailWrite makes the n-th Write call (1-based, counted over the life of the
// connection) return err without writing anything.
func (c *Conn) FailWrite(n int, err error) {
	c.mu.Lock()
	c.failWrite[n] = err
	c.mu.Unlock()
}

// FailNextWrite makes the next Write call fail.
func (c *Conn) FailNextWrite(err error) {
	c.mu.Lock()
	c.failWrite[c.nwrites+1] = err
	c.mu.Unlock()
}

// SetBudget sets how many more bytes the server accepts before the client's
// Write blocks (<0: unlimited).
func (c *Conn) SetBudget(n int) {
	c.mu.Lock()
	c.budget = n
	c.cond.Broadcast()
	c.mu.Unlock()
}

// AddBudget lets the server take n more bytes.
func (c *Conn) AddBudget(n int) {
	c.mu.Lock()
	if c.budget >= 0 {
		c.budget += n
	}
	c.cond.Broadcast()
	c.mu.Unlock()
}

// Pending reports how many bytes the client has not read yet.
func (c *Conn) Pending() int {
	c.mu.Lock()
	defer c.mu.Unlock()
	n := 0
	for _, ch := range c.inq {
		n += len(ch.data)
	}
	return n
}

// Closed is closed when the client has closed the socket.
func (c *Conn) Closed() <-chan struct{} { return c.closedCh }

// IsClosed reports whether the client has closed the socket.
func (c *Conn) IsClosed() bool {
	c.mu.Lock()
	defer c.mu.Unlock()
	return c.closed
}

// Writes returns a copy of the Write calls so far.
func (c *Conn) Writes() []WriteRec {
	c.mu.Lock()
	defer c.mu.Unlock()
	return append([]WriteRec(nil), c.writes...)
}

// NWrites returns the number of Write calls so far (including failed ones).
func (c *Conn) NWrites() int {
	c.mu.Lock()
	defer c.mu.Unlock()
	return c.nwrites
}

// Bytes returns everything the client has written so far.
func (c *Conn) Bytes() []byte {
	c.mu.Lock()
	defer c.mu.Unlock()
	return append([]byte(nil), c.wbytes.Bytes()...)
}

// Lines returns the complete CRLF-terminated lines written so far (without
// the terminator) and the unterminated rest.
func (c *Conn) Lines() (lines []string, rest string) {
	b := string(c.Bytes())
	parts := strings.Split(b, "\r\n")
	return parts[:len(parts)-1], parts[len(parts)-1]
}

// WaitFor waits until cond holds for the written lines or the timeout expires.
func (c *Conn) WaitFor(timeout time.Duration, cond func(lines []string) bool) bool {
	deadline := time.Now().Add(timeout)
	for {
		c.mu.Lock()
		ch := c.changed()
		closed := c.closed
		c.mu.Unlock()
		l, _ := c.Lines()
		if cond(l) {
			return true
		}
		if closed || !time.Now().Before(deadline) {
			return false
		}
		select {
		case <-ch:
		case <-time.After(time.Until(deadline)):
		}
	}
}

// changed returns a channel that is closed at the next Write or Close (mu held).
func (c *Conn) changed() chan struct{} {
	if c.notify == nil {
		c.notify = make(chan struct{})
	}
	return c.notify
}

func (c *Conn) signal() {
	if c.notify != nil {
		close(c.notify)
		c.notify = nil
	}
}

// WaitLine waits for a written line with the given prefix at index >= from.
func (c *Conn) WaitLine(prefix string, from int, timeout time.Duration) (int, bool) {
	idx := -1
	ok := c.WaitFor(timeout, func(lines []string) bool {
		for i := from; i < len(lines); i++ {
			if strings.HasPrefix(lines[i], prefix) {
				idx = i
				return true
			}
		}
		return false
	})
	return idx, ok
}

// ServerSide returns a net.Conn for the server's end of the socket (used to
// run a TLS server on top of it): Read consumes what the client wrote, Write
// queues data for the client.
func (c *Conn) ServerSide() net.Conn { return &serverEnd{c: c} }

type serverEnd struct {
	c   *Conn
	off int
}

func (s *serverEnd) Read(p []byte) (int, error) {
	c := s.c
	for {
		c.mu.Lock()
		ch := c.changed()
		b := c.wbytes.Bytes()
		if len(b) > s.off {
			n := copy(p, b[s.off:])
			s.off += n
			c.mu.Unlock()
			return n, nil
		}
		closed := c.closed
		c.mu.Unlock()
		if closed {
			return 0, io.EOF
		}
		<-ch
	}
}

func (s *serverEnd) Write(p []byte) (int, error) {
	if s.c.IsClosed() {
		return 0, ErrClosed
	}
	s.c.Send(p)
	return len(p), nil
}
func (s *serverEnd) Close() error                       { s.c.EOF(); return nil }
func (s *serverEnd) LocalAddr() net.Addr                { return addr("server") }
func (s *serverEnd) RemoteAddr() net.Addr               { return addr("client") }
func (s *serverEnd) SetDeadline(t time.Time) error      { return nil }
func (s *serverEnd) SetReadDeadline(t time.Time) error  { return nil }
func (s *serverEnd) SetWriteDeadline(t time.Time) error { return nil }

// ---- networks and the proxy dialer ------------------------------------------

// DialRec is one dial attempt.
type DialRec struct {
	Addr    string
	Conn    *Conn
	Err     error
	Context bool // dialled through DialContext
}

// Network hands out Conns to dial attempts.
type Network struct {
	Name string
	mu   sync.Mutex
	// OnDial decides the outcome of a dial; nil: always a fresh Conn.
	OnDial func(addr string) (*Conn, error)
	// NoContext makes the dialer not implement proxy.ContextDialer.
	NoContext bool
	dials     []DialRec
	ch        chan DialRec
}

var (
	regOnce  sync.Once
	netsMu   sync.Mutex
	networks = map[string]*Network{}
	netSeq   int
)

// NewNetwork registers a network; use URL() as Config.Proxy.
func NewNetwork() *Network {
	regOnce.Do(func() {
		proxy.RegisterDialerType("verif", func(u *url.URL, fwd proxy.Dialer) (proxy.Dialer, error) {
			netsMu.Lock()
			n := networks[u.Host]
			netsMu.Unlock()
			if n == nil {
				return nil, fmt.Errorf("fakenet: unknown network %q", u.Host)
			}
			if n.NoContext {
				return plainDialer{n}, nil
			}
			return ctxDialer{n}, nil
		})
	})
	netsMu.Lock()
	defer netsMu.Unlock()
	netSeq++
	n := &Network{Name: fmt.Sprintf("n%d", netSeq), ch: make(chan DialRec, 64)}
	networks[n.Name] = n
	return n
}

// Release forgets the network.
func (n *Network) Release() {
	netsMu.Lock()
	delete(networks, n.Name)
	netsMu.Unlock()
}

// URL is the value for Config.Proxy.
func (n *Network) URL() string { return "verif://" + n.Name }

func (n *Network) dial(addr string, ctx bool) (net.Conn, error) {
	n.mu.Lock()
	f := n.OnDial
	n.mu.Unlock()
	var c *Conn
	var err error
	if f != nil {
		c, err = f(addr)
	} else {
		c = NewConn()
	}
	if c != nil {
		c.Addr = addr
	}
	rec := DialRec{Addr: addr, Conn: c, Err: err, Context: ctx}
	n.mu.Lock()
	n.dials = append(n.dials, rec)
	n.mu.Unlock()
	select {
	case n.ch <- rec:
	default:
	}
	if err != nil {
		return nil, err
	}
	return c, nil
}

// Dials returns the dial attempts so far.
func (n *Network) Dials() []DialRec {
	n.mu.Lock()
	defer n.mu.Unlock()
	return append([]DialRec(nil), n.dials...)
}

// NextDial waits for the next dial attempt.
func (n *Network) NextDial(timeout time.Duration) (DialRec, bool) {
	select {
	case r := <-n.ch:
		return r, true
	case <-time.After(timeout):
		return DialRec{}, false
	}
}

type plainDialer struct{ n *Network }

func (d plainDialer) Dial(network, addr string) (net.Conn, error) { return d.n.dial(addr, false) }

type ctxDialer struct{ n *Network }

func (d ctxDialer) Dial(network, addr string) (net.Conn, error) { return d.n.dial(addr, false) }
func (d ctxDialer) DialContext(ctx context.Context, network, addr string) (net.Conn, error) {
	if err := ctx.Err(); err != nil {
		return nil, err
	}
	return d.n.dial(addr, true)
}
