// Package outq drives concurrent senders through a real client.Conn and
// records what the server receives (C09, spec/Conn.tla out configs, OutTrace.tla).
package outq

import (
	"bufio"
	"context"
	"encoding/json"
	"flag"
	"fmt"
	"math/rand"
	"os"
	"regexp"
	"strconv"
	"strings"
	"sync"
	"time"

	"github.com/fluffle/goirc/client"
	"verifharness/sess"
)

var tagRe = regexp.MustCompile(`s=(\w+);i=(\d+);`)

type wireLine struct {
	S    string `json:"s"`
	I    int    `json:"i"`
	Text string `json:"text"`
}

type senderRec struct {
	S     string   `json:"s"`
	Lines []string `json:"lines"`
}

type sessionRec struct {
	Name    string      `json:"name"`
	Senders []senderRec `json:"senders"`
	Wire    []wireLine  `json:"wire"`
}

// one session: nUser user goroutines and nHandler handler-driven senders,
// each issuing m lines; pacing: fast | slow | burst | stall-then-go
func session(name string, nUser, nHandler, m int, pacing string, rng *rand.Rand) (*sessionRec, error) {
	s := sess.New(nil)
	defer s.Close()
	if err := s.Connect(); err != nil {
		return nil, err
	}
	if !s.Welcome("me", 5*time.Second) {
		return nil, fmt.Errorf("registration did not complete")
	}
	{
		// a Connect that is refused (the client is connected) must change nothing - also not when the context it
		// was given is cancelled afterwards
		ctxB, cancelB := context.WithCancel(context.Background())
		if err := s.C.ConnectContext(ctxB); err == nil {
			cancelB()
			return nil, fmt.Errorf("Connect on a connected client was not refused")
		}
		cancelB()
	}
	if strings.Contains(name, "second-connection") {
		// the session proper runs on a second connection that was requested (from another goroutine) while the
		// first one was still being torn down behind a slow foreground handler
		entered := make(chan struct{})
		var once sync.Once
		s.C.HandleFunc("SLOW", func(c *client.Conn, l *client.Line) {
			once.Do(func() { close(entered) })
			time.Sleep(50 * time.Millisecond)
		})
		s.Srv.SendLines("SLOW")
		select {
		case <-entered:
		case <-time.After(5 * time.Second):
			return nil, fmt.Errorf("the SLOW handler was never entered")
		}
		go s.C.Close()
		for t0 := time.Now(); s.C.Connected() && time.Since(t0) < 5*time.Second; {
			time.Sleep(200 * time.Microsecond)
		}
		cerr := make(chan error, 1)
		go func() { cerr <- s.C.Connect() }()
		select {
		case err := <-cerr:
			if err != nil {
				return nil, fmt.Errorf("second Connect: %v", err)
			}
		case <-time.After(10 * time.Second):
			return nil, fmt.Errorf("second Connect did not return")
		}
		s.LatestSrv()
		if !s.Welcome("me", 5*time.Second) {
			if s.Srv.IsClosed() || !s.C.Connected() {
				return nil, fmt.Errorf("registration did not complete on the second connection")
			}
			// the connection is up, yet the lines the REGISTER handler handed to the client are not on the wire:
			// record exactly that (sender "reg") and let OutTrace judge
			rec := &sessionRec{Name: name, Senders: []senderRec{{S: "reg", Lines: []string{"NICK me", "USER ident 12 * :Real Name"}}}, Wire: []wireLine{}}
			l, _ := s.Srv.Lines()
			for i, x := range l {
				if strings.HasPrefix(x, "NICK ") || strings.HasPrefix(x, "USER ") {
					rec.Wire = append(rec.Wire, wireLine{S: "reg", I: len(rec.Wire) + 1, Text: x})
				}
				_ = i
			}
			return rec, nil
		}
	}
	srv := s.Srv
	base, _ := srv.Lines()
	skip := len(base)
	rec := &sessionRec{Name: name, Wire: []wireLine{}, Senders: []senderRec{}}
	// every sender issues its lines through a rotating set of command methods; mk returns the
	// line as it must appear on the wire and the call that issues it
	type issue struct {
		wire string
		call func(c *client.Conn)
	}
	mk := func(sn string, i int) issue {
		pad := rng.Intn(40)
		if m := i % 11; m != 1 && m != 2 && m != 9 && m != 10 && rng.Intn(10) == 0 {
			// a long line (the commands that do not split): around the 512-byte mark, or far beyond it
			if pad = 440 + rng.Intn(120); rng.Intn(3) == 0 {
				pad = 600 + rng.Intn(2400)
			}
		}
		tag := fmt.Sprintf("s=%s;i=%d;100%%;%%d%%s;%s", sn, i, strings.Repeat("x", pad))
		switch i % 11 {
		case 9:
			return issue{"PRIVMSG #c :" + tag, func(c *client.Conn) { c.Privmsgln("#c", tag) }}
		case 10:
			return issue{"PRIVMSG #c :" + tag, func(c *client.Conn) { c.Privmsgf("#c", "%s", tag) }}
		case 0:
			return issue{"PRIVMSG #c :" + tag, func(c *client.Conn) { c.Raw("PRIVMSG #c :" + tag) }}
		case 1:
			return issue{"PRIVMSG #c :" + tag, func(c *client.Conn) { c.Privmsg("#c", tag) }}
		case 2:
			return issue{"NOTICE #c :" + tag, func(c *client.Conn) { c.Notice("#c", tag) }}
		case 3:
			return issue{"PONG :" + tag, func(c *client.Conn) { c.Pong(tag) }}
		case 4:
			return issue{"PING :" + tag, func(c *client.Conn) { c.Ping(tag) }}
		case 5:
			return issue{"QUIT :" + tag, func(c *client.Conn) { c.Quit(tag) }}
		case 6:
			return issue{"AWAY :" + tag, func(c *client.Conn) { c.Away(tag) }}
		case 7:
			return issue{"TOPIC #c :" + tag, func(c *client.Conn) { c.Topic("#c", tag) }}
		default:
			return issue{"MODE #c " + tag, func(c *client.Conn) { c.Mode("#c", tag) }}
		}
	}
	wires := func(l []issue) []string {
		r := make([]string, len(l))
		for i, x := range l {
			r[i] = x.wire
		}
		return r
	}
	var issued sync.Map
	var wg sync.WaitGroup
	// handler-driven senders: the server sends a trigger line, the foreground handler sends m lines
	for h := 0; h < nHandler; h++ {
		sn := fmt.Sprintf("h%d", h)
		lines := make([]issue, m)
		for i := range lines {
			lines[i] = mk(sn, i+1)
		}
		issued.Store(sn, wires(lines))
		wg.Add(1)
		s.C.HandleFunc("TRIG"+strconv.Itoa(h), func(c *client.Conn, l *client.Line) {
			defer wg.Done()
			for _, x := range lines {
				x.call(c)
			}
		})
	}
	switch pacing {
	case "slow", "burst", "stall":
		srv.SetBudget(0)
	}
	stop := make(chan struct{})
	pacer := make(chan struct{})
	go func() {
		defer close(pacer)
		for {
			select {
			case <-stop:
				srv.SetBudget(-1)
				return
			default:
			}
			switch pacing {
			case "slow":
				srv.AddBudget(60)
				time.Sleep(50 * time.Microsecond)
			case "burst":
				time.Sleep(time.Duration(1+rng.Intn(3)) * time.Millisecond)
				srv.AddBudget(3000)
			case "stall":
				time.Sleep(15 * time.Millisecond)
				srv.SetBudget(-1)
				return
			default:
				return
			}
		}
	}()
	for u := 0; u < nUser; u++ {
		sn := fmt.Sprintf("u%d", u)
		lines := make([]issue, m)
		for i := range lines {
			lines[i] = mk(sn, i+1)
		}
		issued.Store(sn, wires(lines))
		wg.Add(1)
		go func() {
			defer wg.Done()
			for _, x := range lines {
				x.call(s.C)
			}
		}()
	}
	for h := 0; h < nHandler; h++ {
		// background handlers would also do; foreground ones serialise on the event loop
		srv.SendLines("TRIG" + strconv.Itoa(h))
	}
	done := make(chan struct{})
	go func() { wg.Wait(); close(done) }()
	select {
	case <-done:
	case <-time.After(60 * time.Second):
		close(stop)
		return nil, fmt.Errorf("senders did not finish (blocked?)")
	}
	close(stop)
	<-pacer
	srv.SetBudget(-1)
	if !s.Sync(20 * time.Second) {
		if srv.IsClosed() || !s.C.Connected() {
			return nil, fmt.Errorf("no PONG at the end: connection did not stay up")
		}
		// the connection is up but the answer to the final PING never showed up as a line of its own:
		// the transcript is judged as it stands (lines lost or glued together are what C09 is about)
	}
	all, _ := srv.Lines()
	for _, l := range all[skip:] {
		if strings.HasPrefix(l, "PONG :sync-") {
			continue
		}
		wl := wireLine{Text: l}
		if m := tagRe.FindStringSubmatch(l); m != nil {
			wl.S = m[1]
			wl.I, _ = strconv.Atoi(m[2])
		}
		rec.Wire = append(rec.Wire, wl)
	}
	issued.Range(func(k, v interface{}) bool {
		rec.Senders = append(rec.Senders, senderRec{S: k.(string), Lines: v.([]string)})
		return true
	})
	return rec, nil
}

// RunOut records sessions for OutTrace.tla.
func RunOut(args []string) int {
	fs := flag.NewFlagSet("conn-out", flag.ExitOnError)
	out := fs.String("out", "trace.ndjson", "trace file")
	tier := fs.String("tier", "quick", "quick|thorough")
	seed := fs.Int64("seed", 1, "seed")
	fs.Parse(args)
	rng := rand.New(rand.NewSource(*seed))
	f, err := os.Create(*out)
	if err != nil {
		return 2
	}
	defer f.Close()
	w := bufio.NewWriter(f)
	defer w.Flush()
	type plan struct{ u, h, m int }
	plans := []plan{{1, 0, 50}, {8, 0, 50}, {4, 2, 40}, {2, 0, 200}, {32, 0, 20}}
	if *tier == "thorough" {
		plans = append(plans, plan{32, 4, 500}, plan{16, 0, 1000}, plan{3, 3, 300}, plan{64, 0, 100}, plan{1, 1, 2000})
	}
	n, lines := 0, 0
	var sample interface{}
	{
		name := "users=3 handlers=1 lines=40 pacing=fast second-connection"
		r, err := session(name, 3, 1, 40, "fast", rng)
		if err != nil {
			fmt.Println("INCOMPLETE " + name + ": " + err.Error())
			return 3
		}
		b, _ := json.Marshal(r)
		w.Write(b)
		w.WriteByte('\n')
		n++
		lines += len(r.Wire)
	}
	for _, p := range plans {
		for _, pacing := range []string{"fast", "slow", "burst", "stall"} {
			name := fmt.Sprintf("users=%d handlers=%d lines=%d pacing=%s", p.u, p.h, p.m, pacing)
			r, err := session(name, p.u, p.h, p.m, pacing, rng)
			if err != nil {
				fmt.Println("INCOMPLETE " + name + ": " + err.Error())
				return 3
			}
			b, _ := json.Marshal(r)
			w.Write(b)
			w.WriteByte('\n')
			n++
			lines += len(r.Wire)
			if sample == nil && len(r.Wire) >= 3 {
				sample = map[string]interface{}{"name": name, "first_wire_lines": r.Wire[:3]}
			}
		}
	}
	b, _ := json.Marshal(map[string]interface{}{"sessions": n, "wire_lines": lines, "sample": sample})
	fmt.Println("SUMMARY " + string(b))
	return 0
}
