// Package copies records, for every dispatched line, the storage identity and
// the content each handler invocation of the three sets received (C15).
package copies

import (
	"bufio"
	"encoding/json"
	"flag"
	"fmt"
	"math/rand"
	"os"
	"reflect"
	"sort"
	"strings"
	"sync"
	"time"
	"unsafe"

	"github.com/fluffle/goirc/client"
	"verifharness/cmds"
	"verifharness/sess"
)

type inv struct {
	Set     string `json:"set"`
	H       int    `json:"h"`
	ArgsID  uint64 `json:"argsId"`
	Time    string `json:"time"`  // Line.Time (when the line was received), the same for every copy
	Slots   []int  `json:"slots"` // the argument array's whole capacity as ranks of slot addresses (per line)
	slotAd  []uint64
	TagsID  uint64      `json:"tagsId"`
	Args    []string    `json:"args"`
	HasTags bool        `json:"hasTags"`
	Tags    [][2]string `json:"tags"`
}

type rec struct {
	Raw      string      `json:"raw"`
	Args     []string    `json:"args"`
	HasTags  bool        `json:"hasTags"`
	Tags     [][2]string `json:"tags"`
	Expected int         `json:"expected"`
	Invs     []inv       `json:"invs"`
}

func tagList(m map[string]string) [][2]string {
	r := [][2]string{}
	for k, v := range m {
		r = append(r, [2]string{k, v})
	}
	sort.Slice(r, func(i, j int) bool { return r[i][0] < r[j][0] })
	return r
}

func latin(l []string) []string {
	r := make([]string, len(l))
	copy(r, l)
	return r
}

// RunCopies is the sub-command.
func RunCopies(args []string) int {
	fs := flag.NewFlagSet("copies", flag.ExitOnError)
	out := fs.String("out", "trace.ndjson", "trace file")
	n := fs.Int("n", 300, "lines")
	seed := fs.Int64("seed", 1, "seed")
	nh := fs.Int("handlers", 3, "handlers per set")
	fs.Parse(args)
	rng := rand.New(rand.NewSource(*seed))
	f, err := os.Create(*out)
	if err != nil {
		return 2
	}
	defer f.Close()
	w := bufio.NewWriterSize(f, 1<<20)
	defer w.Flush()
	// the recovery hook is handed a line as well: it edits it (as a scrubbing hook would), which must not show anywhere
	s := sess.New(func(c *client.Config) {
		c.Recover = func(conn *client.Conn, l *client.Line) {
			if l != nil {
				for i := range l.Args {
					l.Args[i] = "scrubbed-by-the-recovery-hook"
				}
				for k := range l.Tags {
					l.Tags[k] = "scrubbed"
				}
			}
			recover()
		}
	})
	defer s.Close()
	var mu sync.Mutex
	cur := map[string][]inv{} // raw -> invocations
	var keep []*client.Line   // keep every received line alive: no address may be reused legitimately
	verbs := []string{"ZCA", "ZCB", "PRIVMSG"}
	bgDone := map[string]chan struct{}{}
	client.VerifHook = func(ev string, c *client.Conn, a ...interface{}) {
		if ev == "hset.dispatch.end" && c != nil && client.VerifSetName(c, a[0]) == "bg" {
			l := a[1].(*client.Line)
			mu.Lock()
			ch := bgDone[l.Raw]
			mu.Unlock()
			if ch != nil {
				close(ch)
			}
		}
	}
	mk := func(set string, h int) client.HandlerFunc {
		return func(c *client.Conn, l *client.Line) {
			v := inv{Set: set, H: h, Args: latin(l.Args), HasTags: l.Tags != nil, Tags: tagList(l.Tags), Time: l.Time.Format(time.RFC3339Nano)}
			if v.Args == nil {
				v.Args = []string{}
			}
			if len(l.Args) > 0 {
				v.ArgsID = uint64(uintptr(unsafe.Pointer(unsafe.SliceData(l.Args))))
			}
			if c := cap(l.Args); c > 0 && c <= 4096 {
				full := l.Args[:c]
				for i := range full {
					v.slotAd = append(v.slotAd, uint64(uintptr(unsafe.Pointer(&full[i]))))
				}
			}
			if l.Tags != nil {
				v.TagsID = uint64(reflect.ValueOf(l.Tags).Pointer())
			}
			mu.Lock()
			cur[l.Raw] = append(cur[l.Raw], v)
			keep = append(keep, l)
			mu.Unlock()
			// now scribble over everything the line holds
			for i := range l.Args {
				l.Args[i] = fmt.Sprintf("scribbled-by-%s%d", set, h)
			}
			l.Args = append(l.Args, fmt.Sprintf("appended-by-%s%d", set, h))
			if l.Tags != nil {
				for k := range l.Tags {
					l.Tags[k] = "scribbled"
				}
				l.Tags[fmt.Sprintf("added-by-%s%d", set, h)] = "x"
			}
			l.Cmd, l.Nick = "SCRIBBLED", "scribbled"
			l.Time = l.Time.Add(time.Hour)
		}
	}
	if err := s.Connect(); err != nil {
		fmt.Println(err)
		return 2
	}
	if !s.Welcome("me", 5*time.Second) {
		return 2
	}
	// handlers per set differ per verb: one set with a single handler, sets with none, sets with several
	counts := map[string][3]int{"ZCA": {1, 1, 1}, "ZCB": {*nh, *nh, *nh}, "PRIVMSG": {0, 1, 2}}
	expectedOf := map[string]int{}
	for _, v := range verbs {
		c := counts[v]
		for h := 0; h < c[0]; h++ {
			client.VerifHandleInternal(s.C, v, mk("int", h))
		}
		for h := 0; h < c[1]; h++ {
			s.C.HandleFunc(v, mk("fg", h))
		}
		for h := 0; h < c[2]; h++ {
			s.C.HandleBG(v, mk("bg", h))
		}
		expectedOf[v] = c[0] + c[1] + c[2]
	}
	expected := 0
	tagForms := []string{"", "", "@ ", "@; ", "@a=b ", "@a=b;c;d=e\\sf ", "@k ", "@;; "}
	lines, invocations := 0, 0
	for i := 0; i < *n; i++ {
		na := rng.Intn(16)
		if i%7 == 0 {
			na = 0
		}
		var parts []string
		for j := 0; j < na; j++ {
			parts = append(parts, fmt.Sprintf("a%d-%d", i, j))
		}
		verb := verbs[rng.Intn(len(verbs))]
		if verb == "PRIVMSG" && na < 2 {
			verb = "ZCA"
		}
		raw := tagForms[rng.Intn(len(tagForms))] + fmt.Sprintf(":n%d!u@h ", i) + verb
		if na > 0 {
			raw += " " + strings.Join(parts[:na-1], " ")
			if na > 1 {
				raw += " "
			}
			raw += ":" + parts[na-1] + " trailing words"
		}
		ref := client.ParseLine(raw)
		if ref == nil {
			continue
		}
		done := make(chan struct{})
		mu.Lock()
		bgDone[raw] = done
		mu.Unlock()
		s.Srv.SendLines(raw)
		if !s.Sync(10 * time.Second) {
			fmt.Println("INCOMPLETE no PONG after", raw)
			return 3
		}
		select {
		case <-done:
		case <-time.After(10 * time.Second):
			fmt.Println("INCOMPLETE background dispatch never finished for", raw)
			return 3
		}
		mu.Lock()
		expected = expectedOf[verb]
		// slot addresses -> ranks among all slot addresses of this line's invocations (an order-preserving
		// renaming: TLC's integers are 32 bit; disjointness is decided by CopiesTrace)
		{
			var all []uint64
			for _, v := range cur[raw] {
				all = append(all, v.slotAd...)
			}
			sort.Slice(all, func(i, j int) bool { return all[i] < all[j] })
			rank := map[uint64]int{}
			for _, a := range all {
				if _, ok := rank[a]; !ok {
					rank[a] = len(rank) + 1
				}
			}
			for i := range cur[raw] {
				cur[raw][i].Slots = []int{}
				for _, a := range cur[raw][i].slotAd {
					cur[raw][i].Slots = append(cur[raw][i].Slots, rank[a])
				}
			}
		}
		r := rec{Raw: raw, Args: latin(ref.Args), HasTags: ref.Tags != nil, Tags: tagList(ref.Tags), Expected: expected, Invs: cur[raw]}
		invocations += expected
		delete(cur, raw)
		delete(bgDone, raw)
		mu.Unlock()
		if r.Args == nil {
			r.Args = []string{}
		}
		if r.Invs == nil {
			r.Invs = []inv{}
		}
		b, _ := json.Marshal(r)
		w.Write(cmds.ASCIIJSON(b))
		w.WriteByte('\n')
		lines++
	}
	// the events the client makes up itself (here: DISCONNECTED) are copied per invocation like lines off the wire
	{
		raw := ""
		for h := 0; h < 2; h++ {
			s.C.HandleFunc(client.DISCONNECTED, mk("fg", 10+h))
			s.C.HandleBG(client.DISCONNECTED, mk("bg", 10+h))
		}
		done := make(chan struct{})
		mu.Lock()
		bgDone[raw] = done
		mu.Unlock()
		go s.C.Close()
		select {
		case <-done:
		case <-time.After(10 * time.Second):
			fmt.Println("INCOMPLETE background dispatch of DISCONNECTED never finished")
			return 3
		}
		time.Sleep(5 * time.Millisecond)
		mu.Lock()
		r := rec{Raw: "", Args: []string{}, HasTags: false, Tags: [][2]string{}, Expected: 4, Invs: cur[raw]}
		for i := range r.Invs {
			r.Invs[i].Slots = []int{}
		}
		mu.Unlock()
		if r.Invs == nil {
			r.Invs = []inv{}
		}
		b, _ := json.Marshal(r)
		w.Write(cmds.ASCIIJSON(b))
		w.WriteByte('\n')
		lines++
	}
	b, _ := json.Marshal(map[string]interface{}{"lines": lines, "invocations": invocations, "handlers_per_line": expectedOf, "kept_alive": len(keep)})
	fmt.Println("SUMMARY " + string(b))
	return 0
}
