package irc

import (
	"bufio"
	"encoding/json"
	"flag"
	"fmt"
	"math/rand"
	"os"
	"sort"
	"strings"
	"sync"
	"time"

	"github.com/fluffle/goirc/client"
	"verifharness/sess"
)

// Comp is the component record of IrcLine.tla.
type Comp struct {
	HasTags  bool      `json:"hasTags"`
	Tags     []CompTag `json:"tags"`
	Src      string    `json:"src"`
	Verb     string    `json:"verb"`
	Mids     []string  `json:"mids"`
	HasTrail bool      `json:"hasTrail"`
	Trail    string    `json:"trail"`
	Sp       int       `json:"sp"`
}

type CompTag struct {
	K  string `json:"k"`
	V  string `json:"v"`
	Hv bool   `json:"hv"`
}

var tagEsc = strings.NewReplacer("\\", "\\\\", ";", "\\:", " ", "\\s", "\r", "\\r", "\n", "\\n")

// render is the driver's own renderer; TLC checks it against IrcLine!Render.
func (m *Comp) render() string {
	var b strings.Builder
	if m.HasTags {
		b.WriteByte('@')
		for i, t := range m.Tags {
			if i > 0 {
				b.WriteByte(';')
			}
			b.WriteString(t.K)
			if t.Hv {
				b.WriteByte('=')
				b.WriteString(tagEsc.Replace(t.V))
			}
		}
		b.WriteByte(' ')
	}
	if m.Src != "" {
		b.WriteString(":" + m.Src + " ")
	}
	b.WriteString(m.Verb)
	sp := strings.Repeat(" ", m.Sp)
	for _, p := range m.Mids {
		b.WriteString(sp + p)
	}
	if m.HasTrail {
		b.WriteString(sp + ":" + m.Trail)
	}
	return b.String()
}

func pick(r *rand.Rand, alphabet string, min, max int) string {
	n := min + r.Intn(max-min+1)
	b := make([]byte, n)
	for i := range b {
		b[i] = alphabet[r.Intn(len(alphabet))]
	}
	return string(b)
}

const (
	lower    = "abcdefghijklmnopqrstuvwxyz"
	upperL   = "ABCDEFGHIJKLMNOPQRSTUVWXYZ"
	digits   = "0123456789"
	keyChars = lower + digits + "./-"
	nickCh   = lower + upperL + digits + "[]`^{}-_|"
	hostCh   = lower + digits + ".:-"
	midCh    = lower + upperL + digits + "#&+!:,.*=@;\\"
)

// printable ASCII plus a few control bytes, but no SOH, no white space other than U+0020
func textAlphabet() string {
	var b []byte
	for c := 0x20; c <= 0x7e; c++ {
		b = append(b, byte(c))
	}
	b = append(b, 0x02, 0x03, 0x0f, 0x1f, 0x7f, ' ', ' ', ' ', ':', ':')
	return string(b)
}

var textCh = textAlphabet()

// RandComp draws a well-formed message from large alphabets.
func RandComp(r *rand.Rand) *Comp {
	m := &Comp{Sp: 1, Tags: []CompTag{}, Mids: []string{}}
	if r.Intn(4) == 0 {
		m.Sp = 1 + r.Intn(3)
	}
	if r.Intn(3) == 0 {
		m.HasTags = true
		seen := map[string]bool{}
		for i, n := 0, 1+r.Intn(4); i < n; i++ {
			k := pick(r, keyChars, 1, 8)
			if seen[k] {
				continue
			}
			seen[k] = true
			t := CompTag{K: k}
			if r.Intn(4) != 0 {
				t.Hv = true
				t.V = pick(r, lower+digits+"; \\\r\n=:;\\ sn", 0, 12)
			}
			m.Tags = append(m.Tags, t)
		}
	}
	switch r.Intn(5) {
	case 0:
	case 1:
		m.Src = pick(r, lower, 1, 6) + "." + pick(r, lower+".", 1, 8) + "x"
	case 2:
		m.Src = pick(r, nickCh, 1, 9) + "@" + pick(r, hostCh, 1, 12)
	default:
		m.Src = pick(r, nickCh, 1, 9) + "!" + pick(r, "~"+lower+digits, 1, 8) + "@" + pick(r, hostCh, 1, 16)
	}
	msgVerb := false
	switch r.Intn(6) {
	case 0:
		m.Verb = pick(r, digits, 3, 3)
	case 1, 2:
		v := []string{"PRIVMSG", "NOTICE", "privmsg", "Notice", "pRiVmSg", "nOTICE"}[r.Intn(6)]
		m.Verb, msgVerb = v, true
	case 3:
		m.Verb = []string{"JOIN", "part", "Mode", "NICK", "quit", "TOPIC", "kick", "PING", "CAP", "authenticate"}[r.Intn(10)]
	default:
		m.Verb = pick(r, lower+upperL, 1, 9)
		if u := strings.ToUpper(m.Verb); u == "PRIVMSG" || u == "NOTICE" {
			msgVerb = true
		}
	}
	nm := r.Intn(4)
	if r.Intn(10) == 0 {
		nm = r.Intn(15)
	}
	if msgVerb && r.Intn(2) == 0 {
		nm = 1
	}
	for i := 0; i < nm; i++ {
		p := pick(r, midCh, 1, 8)
		if p[0] == ':' {
			p = "x" + p
		}
		m.Mids = append(m.Mids, p)
	}
	if r.Intn(4) != 0 {
		m.HasTrail = true
		m.Trail = pick(r, textCh, 0, 40)
		if r.Intn(60) == 0 {
			// longer than the client's 4096-byte read buffer
			m.Trail = pick(r, textCh, 4000, 9000)
		}
		if msgVerb && nm == 1 && r.Intn(2) == 0 {
			verb := []string{"ACTION", "VERSION", "PING", "TIME", "DCC", "FINGER"}[r.Intn(6)]
			if r.Intn(3) == 0 {
				verb = pick(r, upperL, 1, 8)
			}
			m.Trail = "\x01" + verb + " " + pick(r, textCh, 1, 30) + "\x01"
		}
	}
	return m
}

// Parsed is the delivered line as logged for IrcLineTrace!Conforms.
type Parsed struct {
	Raw     string      `json:"raw"`
	HasTags bool        `json:"hasTags"`
	Tags    [][2]string `json:"tags"`
	Src     string      `json:"src"`
	Nick    string      `json:"nick"`
	Ident   string      `json:"ident"`
	Host    string      `json:"host"`
	Cmd     string      `json:"cmd"`
	Args    []string    `json:"args"`
	Text    string      `json:"text"`
	Target  string      `json:"target"`
	Public  bool        `json:"public"`
	Panics  []string    `json:"panics"`
}

func ParsedOf(l *client.Line) *Parsed {
	p := &Parsed{Tags: [][2]string{}, Args: []string{}, Panics: []string{}}
	if l == nil {
		p.Panics = append(p.Panics, "line rejected")
		return p
	}
	p.Raw, p.Src, p.Nick, p.Ident, p.Host, p.Cmd = l.Raw, l.Src, l.Nick, l.Ident, l.Host, l.Cmd
	p.Args = append(p.Args, l.Args...)
	if l.Tags != nil {
		p.HasTags = true
		for k, v := range l.Tags {
			p.Tags = append(p.Tags, [2]string{k, v})
		}
		sort.Slice(p.Tags, func(i, j int) bool { return p.Tags[i][0] < p.Tags[j][0] })
	}
	if x := safe(func() { p.Text = l.Text() }); x != nil {
		p.Panics = append(p.Panics, "Text: "+fmt.Sprint(x))
	}
	if x := safe(func() { p.Target = l.Target() }); x != nil {
		p.Panics = append(p.Panics, "Target: "+fmt.Sprint(x))
	}
	if x := safe(func() { p.Public = l.Public() }); x != nil {
		p.Panics = append(p.Panics, "Public: "+fmt.Sprint(x))
	}
	return p
}

type genRec struct {
	M      *Comp   `json:"m"`
	Raw    string  `json:"raw"`
	Parsed *Parsed `json:"parsed"`
	Via    string  `json:"via"`
}

// RunGen draws random well-formed messages, runs them through ParseLine and
// (every message whose ParseLine survives) through a connection, and logs
// components + delivered lines for TLC.
func RunGen(args []string) int {
	fs := flag.NewFlagSet("irc-gen", flag.ExitOnError)
	n := fs.Int("n", 2000, "messages")
	seed := fs.Int64("seed", 1, "seed")
	out := fs.String("out", "trace.ndjson", "output")
	fs.Parse(args)
	r := rand.New(rand.NewSource(*seed))
	f, err := os.Create(*out)
	if err != nil {
		return 2
	}
	defer f.Close()
	w := bufio.NewWriterSize(f, 1<<20)
	defer w.Flush()
	emit := func(g genRec) {
		b, _ := json.Marshal(g)
		w.Write(b)
		w.WriteByte('\n')
	}
	var comps []*Comp
	var connable []*Comp
	panics := 0
	for i := 0; i < *n; i++ {
		m := RandComp(r)
		raw := m.render()
		comps = append(comps, m)
		var l *client.Line
		if p := safe(func() { l = client.ParseLine(raw) }); p != nil {
			panics++
			emit(genRec{m, raw, &Parsed{Raw: raw, Tags: [][2]string{}, Args: []string{}, Panics: []string{"ParseLine: " + fmt.Sprint(p)}}, "ParseLine"})
			continue
		}
		emit(genRec{m, raw, ParsedOf(l), "ParseLine"})
		connable = append(connable, m)
	}
	// over a connection, in-process (ParseLine did not panic on these)
	delivered := 0
	for off := 0; off < len(connable); off += 250 {
		end := off + 250
		if end > len(connable) {
			end = len(connable)
		}
		batch := connable[off:end]
		lines, err := deliver(batch, r)
		if err != nil {
			fmt.Println("INCOMPLETE " + err.Error())
			return 3
		}
		for i, m := range batch {
			emit(genRec{m, m.render(), lines[i], "connection"})
			delivered++
		}
	}
	b, _ := json.Marshal(map[string]interface{}{"messages": len(comps), "parse_panics": panics, "delivered_over_connection": delivered,
		"sample": comps[0], "sample_raw": comps[0].render()})
	fmt.Println("SUMMARY " + string(b))
	return 0
}

// deliver sends the messages over a connection and returns, per message, the
// line a foreground handler for its verb received (or a Parsed with a panic
// note when it was not delivered exactly once).
func deliver(batch []*Comp, r *rand.Rand) ([]*Parsed, error) {
	s := sess.New(nil)
	defer s.Close()
	if err := s.Connect(); err != nil {
		return nil, err
	}
	if !s.Welcome("me", 5*time.Second) {
		return nil, fmt.Errorf("registration did not complete")
	}
	var mu sync.Mutex
	got := map[int][]*client.Line{}
	cur := 0
	done := make(chan struct{})
	seen := map[string]bool{}
	for _, m := range batch {
		raw := m.render()
		l := client.ParseLine(raw)
		if l == nil || seen[strings.ToLower(l.Cmd)] {
			continue
		}
		seen[strings.ToLower(l.Cmd)] = true
		s.C.HandleFunc(l.Cmd, func(c *client.Conn, l *client.Line) {
			if strings.HasPrefix(l.Raw, "PING :sync-") {
				return
			}
			mu.Lock()
			got[cur] = append(got[cur], l)
			mu.Unlock()
		})
	}
	s.C.HandleFunc("ZZMARK", func(c *client.Conn, l *client.Line) {
		mu.Lock()
		cur++
		if cur == len(batch) {
			close(done)
		}
		mu.Unlock()
	})
	var stream []byte
	for i, m := range batch {
		stream = append(stream, m.render()+"\r\n"...)
		stream = append(stream, fmt.Sprintf("ZZMARK %d\r\n", i)...)
	}
	var cuts []int
	for p := 0; p < len(stream); {
		p += 1 + r.Intn(200)
		cuts = append(cuts, p)
	}
	s.Srv.SendStream(stream, cuts)
	select {
	case <-done:
	case <-time.After(20 * time.Second):
	}
	mu.Lock()
	defer mu.Unlock()
	res := make([]*Parsed, len(batch))
	for i := range batch {
		if len(got[i]) == 1 {
			res[i] = ParsedOf(got[i][0])
		} else {
			res[i] = &Parsed{Tags: [][2]string{}, Args: []string{}, Panics: []string{fmt.Sprintf("delivered %d times", len(got[i]))}}
		}
	}
	return res, nil
}
