// Package irc binds spec/IrcLine.tla to client.ParseLine and to lines
// delivered over a connection (C01), and sweeps byte strings for C02.
package irc

import (
	"bufio"
	"encoding/json"
	"flag"
	"fmt"
	"io"
	"math/rand"
	"os"
	"os/exec"
	"reflect"
	"sort"
	"strconv"
	"strings"
	"sync"
	"time"

	"github.com/fluffle/goirc/client"
	"verifharness/sess"
)

// Exp is IrcLine!Expected(m) as emitted by MCIrcLine!Emit.
type Exp struct {
	Raw        string      `json:"raw"`
	HasTags    bool        `json:"hasTags"`
	Tags       [][2]string `json:"tags"`
	Src        string      `json:"src"`
	Nick       string      `json:"nick"`
	Ident      string      `json:"ident"`
	Host       string      `json:"host"`
	Cmd        string      `json:"cmd"`
	Args       []string    `json:"args"`
	Text       string      `json:"text"`
	AccDefined bool        `json:"accDefined"`
	Public     bool        `json:"public"`
	Target     string      `json:"target"`
}

// Diff is one disagreement between a delivered line and the specification.
type Diff struct {
	Field string `json:"field"`
	Want  string `json:"want"`
	Got   string `json:"got"`
}

func tagMap(e *Exp) map[string]string {
	if !e.HasTags {
		return nil
	}
	m := map[string]string{}
	for _, kv := range e.Tags {
		m[kv[0]] = kv[1]
	}
	return m
}

func safe(f func()) (p interface{}) {
	defer func() { p = recover() }()
	f()
	return nil
}

// Compare checks a line against the expectation; accessors are called under
// recover (a panic there is reported as a diff of kind "panic:<accessor>").
func Compare(l *client.Line, e *Exp, checkRaw bool) []Diff {
	var d []Diff
	add := func(f, w, g string) {
		if w != g {
			d = append(d, Diff{f, w, g})
		}
	}
	if l == nil {
		return []Diff{{"line", "parsed", "nil (rejected)"}}
	}
	if checkRaw {
		add("Raw", e.Raw, l.Raw)
	}
	add("Src", e.Src, l.Src)
	add("Nick", e.Nick, l.Nick)
	add("Ident", e.Ident, l.Ident)
	add("Host", e.Host, l.Host)
	add("Cmd", e.Cmd, l.Cmd)
	if len(e.Args) != len(l.Args) || (len(e.Args) > 0 && !reflect.DeepEqual(e.Args, l.Args)) {
		add("Args", fmt.Sprintf("%q", e.Args), fmt.Sprintf("%q", l.Args))
	}
	wt := tagMap(e)
	if wt == nil {
		if l.Tags != nil {
			add("Tags", "nil", fmt.Sprintf("%q", l.Tags))
		}
	} else if l.Tags == nil || !reflect.DeepEqual(wt, l.Tags) {
		add("Tags", fmt.Sprintf("%q", wt), fmt.Sprintf("%q", l.Tags))
	}
	var text, target string
	var public bool
	if p := safe(func() { text = l.Text() }); p != nil {
		d = append(d, Diff{"panic:Text", "no panic", fmt.Sprint(p)})
	} else {
		add("Text()", e.Text, text)
	}
	if p := safe(func() { target = l.Target() }); p != nil {
		d = append(d, Diff{"panic:Target", "no panic", fmt.Sprint(p)})
	} else if e.AccDefined {
		add("Target()", e.Target, target)
	}
	if p := safe(func() { public = l.Public() }); p != nil {
		d = append(d, Diff{"panic:Public", "no panic", fmt.Sprint(p)})
	} else if e.AccDefined {
		add("Public()", fmt.Sprint(e.Public), fmt.Sprint(public))
	}
	return d
}

// Finding is one failing message.
type Finding struct {
	Property string `json:"property"`
	Level    string `json:"level"` // "function" or "connection"
	Raw      string `json:"raw"`
	Class    string `json:"class"`
	Diffs    []Diff `json:"diffs"`
	Exp      *Exp   `json:"expected,omitempty"`
}

func classOf(d []Diff) string {
	var fs []string
	for _, x := range d {
		fs = append(fs, x.Field)
	}
	sort.Strings(fs)
	return strings.Join(fs, "+")
}

// ReadMsgs parses the MSG lines of TLC's output; other lines are passed to w.
func ReadMsgs(r io.Reader, pass io.Writer) ([]*Exp, error) {
	var res []*Exp
	in := bufio.NewReaderSize(r, 1<<20)
	for {
		line, err := in.ReadString('\n')
		if strings.HasPrefix(line, "\"MSG ") {
			s, uerr := strconv.Unquote(strings.TrimSpace(line))
			if uerr != nil {
				return nil, uerr
			}
			var e Exp
			if jerr := json.Unmarshal([]byte(s[4:]), &e); jerr != nil {
				return nil, fmt.Errorf("%v: %.200s", jerr, s)
			}
			res = append(res, &e)
		} else if len(line) > 0 && pass != nil {
			fmt.Fprint(pass, "TLC: "+line)
		}
		if err == io.EOF {
			return res, nil
		}
		if err != nil {
			return nil, err
		}
	}
}

type parseSummary struct {
	Messages   int            `json:"messages"`
	Distinct   int            `json:"distinct_raw"`
	Ambiguous  int            `json:"ambiguous_renderings"`
	FuncFail   int            `json:"function_level_failures"`
	ConnSent   int            `json:"connection_level_messages"`
	ConnFail   int            `json:"connection_level_failures"`
	Classes    map[string]int `json:"failure_classes"`
	CmdCounts  map[string]int `json:"expected_cmd_counts"`
	Findings   []Finding      `json:"findings"`
	Samples    []interface{}  `json:"samples"`
	Sessions   int            `json:"sessions"`
	WallS      float64        `json:"wall_s"`
	Incomplete string         `json:"incomplete,omitempty"`
}

// RunOne re-checks one saved finding (replay of a violation).
func RunOne(args []string) int {
	fs := flag.NewFlagSet("irc-one", flag.ExitOnError)
	file := fs.String("file", "", "finding file")
	fs.Parse(args)
	b, err := os.ReadFile(*file)
	if err != nil {
		fmt.Println(err)
		return 2
	}
	var f Finding
	if err := json.Unmarshal(b, &f); err != nil {
		fmt.Println(err)
		return 2
	}
	fmt.Printf("input %q\n", f.Raw)
	var l *client.Line
	if p := safe(func() { l = client.ParseLine(f.Raw) }); p != nil {
		fmt.Println("ParseLine panics:", p)
		return 1
	}
	if f.Exp == nil {
		w, m, _ := probe(f.Raw)
		if w != "" {
			fmt.Println(w, "panics:", m)
			return 1
		}
		fmt.Println("no panic at function level (connection-level findings need the sweep)")
		return 0
	}
	d := Compare(l, f.Exp, true)
	for _, x := range d {
		fmt.Printf("  %s: want %s got %s\n", x.Field, x.Want, x.Got)
	}
	if len(d) > 0 {
		return 1
	}
	fmt.Println("conforms")
	return 0
}

// RunParse: stdin = TLC output of MCIrcLine; function-level and connection-level replay.
func RunParse(args []string) int {
	fs := flag.NewFlagSet("irc-parse", flag.ExitOnError)
	connN := fs.Int("conn", 500, "messages to replay over a connection (0: none, -1: all)")
	seed := fs.Int64("seed", 1, "seed")
	journal := fs.String("journal", "", "crash journal file")
	maxFind := fs.Int("maxfind", 40, "findings to keep (one per class first)")
	fs.Parse(args)
	start := time.Now()
	msgs, err := ReadMsgs(os.Stdin, os.Stdout)
	if err != nil {
		fmt.Fprintln(os.Stderr, "cannot read messages:", err)
		return 2
	}
	sum := parseSummary{Classes: map[string]int{}, CmdCounts: map[string]int{}}
	sum.Messages = len(msgs)
	byRaw := map[string]*Exp{}
	var uniq []*Exp
	for _, e := range msgs {
		if o, ok := byRaw[e.Raw]; ok {
			a, _ := json.Marshal(o)
			b, _ := json.Marshal(e)
			if string(a) != string(b) {
				sum.Ambiguous++
			}
			continue
		}
		byRaw[e.Raw] = e
		uniq = append(uniq, e)
		sum.CmdCounts[e.Cmd]++
	}
	sum.Distinct = len(uniq)
	perClass := map[string]int{}
	keep := func(f Finding) {
		sum.Classes[f.Level+":"+f.Class]++
		perClass[f.Level+":"+f.Class]++
		if perClass[f.Level+":"+f.Class] <= 2 && len(sum.Findings) < *maxFind {
			sum.Findings = append(sum.Findings, f)
		}
	}
	// function level
	for _, e := range uniq {
		var l *client.Line
		if p := safe(func() { l = client.ParseLine(e.Raw) }); p != nil {
			sum.FuncFail++
			keep(Finding{"C01", "function", e.Raw, "panic:ParseLine", []Diff{{"panic:ParseLine", "no panic", fmt.Sprint(p)}}, e})
			continue
		}
		if d := Compare(l, e, true); len(d) > 0 {
			sum.FuncFail++
			keep(Finding{"C01", "function", e.Raw, classOf(d), d, e})
		}
	}
	for i := 0; i < len(uniq) && len(sum.Samples) < 3; i += len(uniq)/3 + 1 {
		sum.Samples = append(sum.Samples, uniq[i])
	}
	// connection level
	if *connN != 0 {
		rng := rand.New(rand.NewSource(*seed))
		pick := uniq
		if *connN > 0 && *connN < len(uniq) {
			pick = make([]*Exp, 0, *connN)
			for _, i := range rng.Perm(len(uniq))[:*connN] {
				pick = append(pick, uniq[i])
			}
		}
		_ = journal
		// messages on which ParseLine itself panics would kill the process
		// (that is C02's subject and reported there and above); leave them out
		var okPick []*Exp
		for _, e := range pick {
			if safe(func() { client.ParseLine(e.Raw) }) == nil {
				okPick = append(okPick, e)
			}
		}
		pick = okPick
		for off := 0; off < len(pick); off += 200 {
			end := off + 200
			if end > len(pick) {
				end = len(pick)
			}
			fnd, crashes, err := ConnReplayChild(pick[off:end], rng.Int63())
			sum.Sessions++
			sum.ConnSent += end - off
			if err != nil {
				sum.Incomplete = err.Error()
				break
			}
			for _, c := range crashes {
				sum.ConnFail++
				keep(Finding{"C02", "connection", c.Line, "process-died", []Diff{{"process", "survives", c.Panic}}, byRaw[c.Line]})
			}
			for _, f := range fnd {
				sum.ConnFail++
				keep(f)
			}
		}
	}
	sum.WallS = time.Since(start).Seconds()
	b, _ := json.Marshal(sum)
	fmt.Println("SUMMARY " + string(b))
	if sum.Incomplete != "" {
		return 3
	}
	if sum.FuncFail+sum.ConnFail > 0 {
		return 1
	}
	return 0
}

func rawsOf(ls []*client.Line) string {
	var r []string
	for _, l := range ls {
		r = append(r, strconv.Quote(l.Raw))
	}
	return strings.Join(r, " | ")
}

// Crash is a death of the child process while a line was being received.
type Crash struct {
	Line  string `json:"line"`
	Panic string `json:"panic"`
}

type connJob struct {
	Msgs     []*Exp `json:"msgs"`
	Seed     int64  `json:"seed"`
	Tracking bool   `json:"tracking"`
}

type connResult struct {
	Findings []Finding `json:"findings"`
	Err      string    `json:"err"`
}

// ConnReplayChild runs ConnReplay in a child process (the recv goroutine has
// no recover: a parser panic kills the whole process). When the child dies,
// the line it was reading (journalled by the recv.read hook) is reported and
// the batch is retried without it.
func ConnReplayChild(msgs []*Exp, seed int64) ([]Finding, []Crash, error) {
	var crashes []Crash
	for attempt := 0; attempt < 12; attempt++ {
		dir, err := os.MkdirTemp("", "irc-conn-")
		if err != nil {
			return nil, crashes, err
		}
		job, _ := json.Marshal(connJob{Msgs: msgs, Seed: seed, Tracking: true})
		os.WriteFile(dir+"/job.json", job, 0o644)
		cmd := exec.Command(os.Args[0], "irc-conn", "-job", dir+"/job.json", "-out", dir+"/out.json", "-journal", dir+"/journal.txt")
		out, runErr := cmd.CombinedOutput()
		var res connResult
		b, rerr := os.ReadFile(dir + "/out.json")
		jb, _ := os.ReadFile(dir + "/journal.txt")
		os.RemoveAll(dir)
		if runErr == nil && rerr == nil && json.Unmarshal(b, &res) == nil {
			if res.Err != "" {
				return res.Findings, crashes, fmt.Errorf("%s", res.Err)
			}
			return res.Findings, crashes, nil
		}
		// the child died
		so := string(out)
		if !strings.Contains(so, "panic:") && !strings.Contains(so, "fatal error:") {
			return nil, crashes, fmt.Errorf("connection replay child failed without a panic: %v: %.500s", runErr, so)
		}
		lines := strings.Split(strings.TrimSpace(string(jb)), "\n")
		last := ""
		for i := len(lines) - 1; i >= 0; i-- {
			if strings.HasPrefix(lines[i], "read ") {
				last, _ = strconv.Unquote(lines[i][5:])
				break
			}
		}
		p := so
		if i := strings.Index(p, "panic:"); i >= 0 {
			p = p[i:]
		}
		if len(p) > 1500 {
			p = p[:1500]
		}
		crashes = append(crashes, Crash{Line: last, Panic: p})
		var rest []*Exp
		for _, e := range msgs {
			if e.Raw != last {
				rest = append(rest, e)
			}
		}
		if len(rest) == len(msgs) || len(rest) == 0 {
			return nil, crashes, nil
		}
		msgs = rest
	}
	return nil, crashes, fmt.Errorf("connection replay child keeps dying")
}

// RunConnChild is the child side of ConnReplayChild.
func RunConnChild(args []string) int {
	fs := flag.NewFlagSet("irc-conn", flag.ExitOnError)
	jobf := fs.String("job", "", "job file")
	outf := fs.String("out", "", "result file")
	journal := fs.String("journal", "", "journal file")
	fs.Parse(args)
	b, err := os.ReadFile(*jobf)
	if err != nil {
		return 2
	}
	var job connJob
	if err := json.Unmarshal(b, &job); err != nil {
		return 2
	}
	j := sess.OpenJournal(*journal)
	client.VerifHook = func(ev string, c *client.Conn, a ...interface{}) {
		if ev == "recv.read" {
			j.Note("read " + strconv.Quote(a[0].(string)))
		}
	}
	fnd, rerr := ConnReplay(job.Msgs, rand.New(rand.NewSource(job.Seed)), j, job.Tracking)
	res := connResult{Findings: fnd}
	if rerr != nil {
		res.Err = rerr.Error()
	}
	ob, _ := json.Marshal(res)
	os.WriteFile(*outf, ob, 0o644)
	return 0
}

// ConnReplay sends the messages over a real connection, each followed by a
// marker line, cut into random read chunks, and compares what a foreground
// handler registered for the expected verb receives.
func ConnReplay(msgs []*Exp, rng *rand.Rand, j *sess.Journal, tracking bool) ([]Finding, error) {
	s := sess.New(nil)
	defer s.Close()
	if tracking && rng.Intn(2) == 0 {
		s.C.EnableStateTracking()
	}
	var mu sync.Mutex
	got := map[int][]*client.Line{} // marker index -> lines delivered since the previous marker
	cur := 0
	if err := s.Connect(); err != nil {
		return nil, fmt.Errorf("connect: %v", err)
	}
	if !s.Welcome("me", 5*time.Second) {
		return nil, fmt.Errorf("registration did not complete")
	}
	// handlers are registered only now, so that they see nothing of the registration
	seenCmd := map[string]bool{}
	for _, e := range msgs {
		if !seenCmd[e.Cmd] {
			seenCmd[e.Cmd] = true
			s.C.HandleFunc(e.Cmd, func(c *client.Conn, l *client.Line) {
				if strings.HasPrefix(l.Raw, "PING :sync-") {
					return // the harness' own synchronisation line (still in its foreground phase when we registered)
				}
				mu.Lock()
				got[cur] = append(got[cur], l)
				mu.Unlock()
			})
			// the only other handler for the verb, in the background set, edits the line it was given: the
			// foreground handler's line (looked at when the batch is over) must still be what was sent
			s.C.HandleBG(e.Cmd, client.HandlerFunc(func(c *client.Conn, l *client.Line) {
				for i := range l.Args {
					l.Args[i] = "edited-by-the-background-handler"
				}
				for k := range l.Tags {
					l.Tags[k] = "edited"
				}
				l.Nick, l.Ident, l.Host, l.Src, l.Cmd = "edited", "edited", "edited", "edited", "EDITED"
			}))
		}
	}
	done := make(chan struct{})
	s.C.HandleFunc("ZZMARK", func(c *client.Conn, l *client.Line) {
		mu.Lock()
		cur++
		if cur == len(msgs) {
			close(done)
		}
		mu.Unlock()
	})
	// what the server announces about itself (005) has no bearing on how a message parses
	stream := []byte(":irc.example.net 005 me CHANTYPES=# PREFIX=(ov)@+ CHANMODES=b,k,l,imnpst NICKLEN=9 :are supported by this server\r\n")
	for i, e := range msgs {
		stream = append(stream, e.Raw...)
		stream = append(stream, "\r\n"...)
		stream = append(stream, fmt.Sprintf("ZZMARK %d\r\n", i)...)
	}
	j.Note("conn-batch first=" + strconv.Quote(msgs[0].Raw) + " n=" + strconv.Itoa(len(msgs)))
	// random segmentation
	var cuts []int
	for p := 0; p < len(stream); {
		p += 1 + rng.Intn(120)
		cuts = append(cuts, p)
	}
	s.Srv.SendStream(stream, cuts)
	select {
	case <-done:
	case <-time.After(20 * time.Second):
		mu.Lock()
		at := cur
		mu.Unlock()
		if at < len(msgs) {
			return []Finding{{"C01", "connection", msgs[at].Raw, "stalled", []Diff{{"delivery", "marker " + strconv.Itoa(at) + " dispatched", "connection stopped processing"}}, msgs[at]}}, nil
		}
	}
	var res []Finding
	mu.Lock()
	defer mu.Unlock()
	for i, e := range msgs {
		ls := got[i]
		if len(ls) != 1 {
			res = append(res, Finding{"C01", "connection", e.Raw, "delivered-" + strconv.Itoa(len(ls)) + "-times",
				[]Diff{{"delivery", "handler for " + e.Cmd + " invoked once", strconv.Itoa(len(ls)) + " invocations: " + rawsOf(ls)}}, e})
			continue
		}
		if d := Compare(ls[0], e, true); len(d) > 0 {
			res = append(res, Finding{"C01", "connection", e.Raw, classOf(d), d, e})
		}
	}
	return res, nil
}
