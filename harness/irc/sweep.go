package irc

import (
	"encoding/json"
	"flag"
	"fmt"
	"math/rand"
	"os"
	"os/exec"
	"runtime"
	"sort"
	"strconv"
	"strings"
	"sync"
	"syscall"
	"time"

	"github.com/fluffle/goirc/client"
	"github.com/fluffle/goirc/logging"
	"verifharness/sess"
)

// ---- C02: no input can crash the client or stop it processing -------------

// the alphabet of the exhaustive function-level sweep: every byte the parser
// and the built-in handlers treat specially, a letter, a digit
var sweepChars = []string{"@", ":", " ", "!", ";", "=", "\\", "\x01", "#", "a", "1"}

// verbs with special treatment in the parser, in Text/Target/Public or in a built-in handler
var sweepWords = []string{"PRIVMSG", "NOTICE", "ACTION", "CTCP", "CTCPREPLY", "VERSION", "PING", "001", "433", "NICK",
	"CAP", "410", "AUTHENTICATE", "903", "904", "908", "JOIN", "KICK", "MODE", "PART", "QUIT", "TOPIC",
	"311", "324", "332", "352", "353", "671"}

var sweepPrefixes = []string{"", ":a ", "@a ", ":a!b@c ", "@a=b :a!b@c ", ":me!i@h "}

type panicClass struct {
	Where   string `json:"where"`
	Msg     string `json:"panic"`
	Count   int    `json:"count"`
	Example string `json:"example"`
}

type sweepAcc struct {
	mu      sync.Mutex
	n       int
	parsed  int
	classes map[string]*panicClass
	inputs  []string // panicking inputs (bounded)
}

func (a *sweepAcc) note(where, msg, in string) {
	k := where + "|" + msg
	c := a.classes[k]
	if c == nil {
		c = &panicClass{Where: where, Msg: msg, Example: in}
		a.classes[k] = c
	}
	c.Count++
	if len(in) < len(c.Example) {
		c.Example = in
	}
	if len(a.inputs) < 4000 {
		a.inputs = append(a.inputs, in)
	}
}

// probe runs one input through ParseLine and the accessors, under recover.
func probe(in string) (where, msg string, parsed bool) {
	var l *client.Line
	if p := safe(func() { l = client.ParseLine(in) }); p != nil {
		return "ParseLine", fmt.Sprint(p), false
	}
	if l == nil {
		return "", "", false
	}
	if p := safe(func() { l.Text() }); p != nil {
		return "Text", fmt.Sprint(p), true
	}
	if p := safe(func() { l.Target() }); p != nil {
		return "Target", fmt.Sprint(p), true
	}
	if p := safe(func() { l.Public() }); p != nil {
		return "Public", fmt.Sprint(p), true
	}
	return "", "", true
}

func enumerate(alpha []string, maxLen int, prefix string, f func(string)) {
	var rec func(cur string, d int)
	rec = func(cur string, d int) {
		f(prefix + cur)
		if d == maxLen {
			return
		}
		for _, a := range alpha {
			rec(cur+a, d+1)
		}
	}
	rec("", 0)
}

// sweepParallel shards the enumeration over the first symbol.
func sweepParallel(acc *sweepAcc, jobs []func(func(string))) {
	var wg sync.WaitGroup
	sem := make(chan struct{}, runtime.NumCPU())
	for _, j := range jobs {
		wg.Add(1)
		sem <- struct{}{}
		go func(j func(func(string))) {
			defer wg.Done()
			defer func() { <-sem }()
			local := &sweepAcc{classes: map[string]*panicClass{}}
			j(func(in string) {
				local.n++
				w, m, p := probe(in)
				if p {
					local.parsed++
				}
				if w != "" {
					local.note(w, m, in)
				}
			})
			acc.mu.Lock()
			acc.n += local.n
			acc.parsed += local.parsed
			for k, c := range local.classes {
				if o := acc.classes[k]; o == nil {
					acc.classes[k] = c
				} else {
					o.Count += c.Count
					if len(c.Example) < len(o.Example) {
						o.Example = c.Example
					}
				}
			}
			for _, in := range local.inputs {
				if len(acc.inputs) < 4000 {
					acc.inputs = append(acc.inputs, in)
				}
			}
			acc.mu.Unlock()
		}(j)
	}
	wg.Wait()
}

// handlerProbes: every built-in handler verb x parameter shapes x sources.
func handlerProbes() []string {
	verbs := []string{"PING", "001", "433", "NICK", "CAP", "410", "AUTHENTICATE", "903", "904", "908", "JOIN", "KICK", "MODE",
		"PART", "QUIT", "TOPIC", "311", "324", "332", "352", "353", "671", "PRIVMSG", "NOTICE", "CTCP", "CTCPREPLY", "ACTION", "ERROR", "005"}
	shapes := []string{"", " :", " x", " #c", " me", " a b c d e f g", " #c me", " #c other :text", " : ", " x :", " :x y z",
		" * LS :", " * LS :a b sasl", " * ACK :sasl", " * ACK :-a", " * NAK :x", " * LS :=sticky multi-prefix", " * ACK :=x", " * LS :a=b -c =", " * ACK :- -= =-", " * LS * :a b", " +", " =", " +o", " #c +ov a", " #c +k", " #c -l+k",
		" me #c", " me #c +ntk", " me = #c :@a +b c", " me #c i h s other H* :0 real", " me #c i h s me G :0", " me other i h * :r",
		" :\x01\x01", " x :\x01\x01\x01", " x :\x01VERSION\x01", " x :\x01PING\x01", " x :\x01PING 1\x01", " x :\x01ACTION\x01", " #c :\x01 \x01",
		" VERSION", " PING", " PING x", " VERSION me", " PING me", " !", " ,", " ::", " :::", " \\ ", " me :Welcome me!i@h", " me :no host", " *", " * *"}
	// parameter counts around and beyond the protocol's limit of 15
	for _, n := range []int{14, 15, 16, 17, 18, 40} {
		shapes = append(shapes, strings.Repeat(" p", n), strings.Repeat(" p", n-1)+" :trailing text", " me :\x01PING"+strings.Repeat(" q", n)+"\x01")
	}
	srcs := []string{"", ":srv ", ":me!i@h ", ":other!u@h ", ":!@ ", ":a!b ", "@t=v :other!u@h ", "@ ", "@; :x ", ":me "}
	var res []string
	for _, v := range verbs {
		for _, sh := range shapes {
			for _, s := range srcs {
				res = append(res, s+v+sh)
			}
		}
	}
	// long runs of a single byte (continuation bytes, lead bytes, 0xFF, control, space, punctuation) through
	// everything that echoes, splits or stores its argument
	for _, fill := range []byte{0x80, 0xbf, 0xc3, 0xe3, 0xff, 0x01, 'a', ' ', '.', ':'} {
		for _, n := range []int{447, 451, 700} {
			run := strings.Repeat(string([]byte{fill}), n)
			res = append(res, ":x!y@z PRIVMSG me :\x01PING "+run+"\x01", ":x!y@z PRIVMSG me :\x01VERSION "+run+"\x01",
				"PING :"+run, ":srv 433 * "+run+" :in use", ":x!y@z NICK :"+run, ":me!i@h JOIN #"+run, ":srv 001 me :Welcome "+run,
				":x!y@z TOPIC #c :"+run, ":srv CAP * LS :"+run, "AUTHENTICATE "+run, ":x!y@z PRIVMSG #c :"+run)
		}
	}
	// lines around and beyond the sizes of the read buffers (4096: bufio's default; 8191: the IRCv3 tag limit; 64 KiB)
	for _, n := range []int{4094, 4095, 4096, 4097, 5000, 8191, 20000, 70000} {
		run := strings.Repeat("a", n)
		res = append(res, ":x!y@z PRIVMSG #c :"+run, "@t="+run+" :x!y@z PRIVMSG #c :x", run, "PING :"+run)
	}
	return res
}

type fmtLogger struct{}

func (fmtLogger) Debug(f string, a ...interface{}) { _ = fmt.Sprintf(f, a...) }
func (fmtLogger) Info(f string, a ...interface{})  { _ = fmt.Sprintf(f, a...) }
func (fmtLogger) Warn(f string, a ...interface{})  { _ = fmt.Sprintf(f, a...) }
func (fmtLogger) Error(f string, a ...interface{}) { _ = fmt.Sprintf(f, a...) }

type survJob struct {
	Lines    []string `json:"lines"`
	Tracking bool     `json:"tracking"`
	Seed     int64    `json:"seed"`
}

type survResult struct {
	Dispatched int      `json:"markers_dispatched"`
	Lost       []string `json:"lost"` // probe lines whose marker was never dispatched
	Order      bool     `json:"order_ok"`
	Recovered  int      `json:"handler_panics_recovered"`
	Err        string   `json:"err"`
}

// toLatin / fromLatin carry arbitrary bytes through JSON as the characters U+0000..U+00FF.
func toLatin(s string) string {
	r := make([]rune, len(s))
	for i := 0; i < len(s); i++ {
		r[i] = rune(s[i])
	}
	return string(r)
}

func fromLatin(s string) string {
	b := make([]byte, 0, len(s))
	for _, r := range s {
		b = append(b, byte(r))
	}
	return string(b)
}

// RunSurviveChild: send probe lines, each followed by a marker, through a real
// connection; every marker must be dispatched, in order.
func RunSurviveChild(args []string) int {
	fs := flag.NewFlagSet("irc-survive", flag.ExitOnError)
	jobf := fs.String("job", "", "")
	outf := fs.String("out", "", "")
	journal := fs.String("journal", "", "")
	fs.Parse(args)
	b, err := os.ReadFile(*jobf)
	if err != nil {
		return 2
	}
	var job survJob
	if json.Unmarshal(b, &job) != nil {
		return 2
	}
	for i, l := range job.Lines {
		job.Lines[i] = fromLatin(l) // bytes travel through JSON as U+0000..U+00FF
	}
	j := sess.OpenJournal(*journal)
	client.VerifHook = func(ev string, c *client.Conn, a ...interface{}) {
		if ev == "recv.read" {
			j.Note("read " + strconv.Quote(a[0].(string)))
		}
	}
	// a logger that formats its records, as any real one does (the default one discards them unformatted)
	logging.SetLogger(fmtLogger{})
	res := survResult{Order: true}
	var mu sync.Mutex
	rec := 0
	s := sess.New(func(c *client.Config) {
		c.Recover = func(conn *client.Conn, l *client.Line) {
			if r := recover(); r != nil {
				mu.Lock()
				rec++
				mu.Unlock()
			}
		}
	})
	defer s.Close()
	if job.Tracking {
		s.C.EnableStateTracking()
	}
	next := 0
	seen := map[int]bool{}
	done := make(chan struct{})
	s.C.HandleFunc("ZZMARK", func(c *client.Conn, l *client.Line) {
		mu.Lock()
		defer mu.Unlock()
		k, _ := strconv.Atoi(l.Args[0])
		if k < next {
			res.Order = false
			if res.Err == "" {
				res.Err = fmt.Sprintf("marker %d dispatched after marker %d (probe before it: %q, line %q)", k, next-1, job.Lines[k], l.Raw)
			}
		}
		next = k + 1
		seen[k] = true
		if k == len(job.Lines)-1 {
			close(done)
		}
	})
	if err := s.Connect(); err != nil {
		res.Err = "connect: " + err.Error()
	} else if !s.Welcome("me", 5*time.Second) {
		res.Err = "registration did not complete"
	} else {
		rng := rand.New(rand.NewSource(job.Seed))
		var stream []byte
		for i, l := range job.Lines {
			stream = append(stream, l+"\r\n"...)
			stream = append(stream, fmt.Sprintf("ZZMARK %d\r\n", i)...)
		}
		var cuts []int
		for p := 0; p < len(stream); {
			p += 1 + rng.Intn(300)
			cuts = append(cuts, p)
		}
		s.Srv.SendStream(stream, cuts)
		// the probes may make the client talk (PONG, NICK, MODE, WHO ...): keep reading
		select {
		case <-done:
		case <-time.After(12 * time.Second):
		}
		mu.Lock()
		for i, l := range job.Lines {
			if seen[i] {
				res.Dispatched++
			} else if len(res.Lost) < 20 {
				res.Lost = append(res.Lost, l)
			}
		}
		res.Recovered = rec
		mu.Unlock()
		if !s.C.Connected() {
			res.Err = "client disconnected itself during the probes"
		}
	}
	ob, _ := json.Marshal(res)
	os.WriteFile(*outf, ob, 0o644)
	return 0
}

// surviveChild runs one batch in a child process; on a crash it reports the
// line being read and retries without it.
func surviveChild(lines []string, tracking bool, seed int64) (res survResult, crashes []Crash, err error) {
	res.Order = true
	for attempt := 0; attempt < 40; attempt++ {
		dir, e := os.MkdirTemp("", "irc-surv-")
		if e != nil {
			return res, crashes, e
		}
		enc := make([]string, len(lines))
		for i, l := range lines {
			enc[i] = toLatin(l)
		}
		job, _ := json.Marshal(survJob{Lines: enc, Tracking: tracking, Seed: seed})
		os.WriteFile(dir+"/job.json", job, 0o644)
		cmd := exec.Command(os.Args[0], "irc-survive", "-job", dir+"/job.json", "-out", dir+"/out.json", "-journal", dir+"/journal.txt")
		out, runErr, hung := runChild(cmd, 120*time.Second)
		if hung {
			os.RemoveAll(dir)
			return res, crashes, fmt.Errorf("survival child hung; goroutines:\n%s", libStacks(string(out)))
		}
		b, rerr := os.ReadFile(dir + "/out.json")
		jb, _ := os.ReadFile(dir + "/journal.txt")
		os.RemoveAll(dir)
		if runErr == nil && rerr == nil && json.Unmarshal(b, &res) == nil {
			return res, crashes, nil
		}
		so := string(out)
		if !strings.Contains(so, "panic:") && !strings.Contains(so, "fatal error:") {
			return res, crashes, fmt.Errorf("survival child failed without a panic: %v: %.500s", runErr, so)
		}
		jl := strings.Split(strings.TrimSpace(string(jb)), "\n")
		last := ""
		for i := len(jl) - 1; i >= 0; i-- {
			if strings.HasPrefix(jl[i], "read ") {
				last, _ = strconv.Unquote(jl[i][5:])
				break
			}
		}
		p := so
		if i := strings.Index(p, "panic:"); i >= 0 {
			p = p[i:]
		}
		if len(p) > 1200 {
			p = p[:1200]
		}
		crashes = append(crashes, Crash{Line: last, Panic: p})
		var rest []string
		for _, l := range lines {
			if strings.Trim(l, "\r\n") != last {
				rest = append(rest, l)
			}
		}
		if len(rest) == len(lines) || len(rest) == 0 {
			return res, crashes, nil
		}
		lines = rest
	}
	return res, crashes, fmt.Errorf("survival child keeps dying (40 distinct crashing lines in one batch)")
}

// runChild runs a child with a deadline; a child that does not finish is sent
// SIGQUIT so that its goroutine dump ends up in the output.
func runChild(cmd *exec.Cmd, d time.Duration) (out []byte, err error, hung bool) {
	var buf strings.Builder
	cmd.Stdout, cmd.Stderr = &buf, &buf
	if err = cmd.Start(); err != nil {
		return nil, err, false
	}
	done := make(chan error, 1)
	go func() { done <- cmd.Wait() }()
	select {
	case err = <-done:
		return []byte(buf.String()), err, false
	case <-time.After(d):
		cmd.Process.Signal(syscall.SIGQUIT)
		select {
		case err = <-done:
		case <-time.After(10 * time.Second):
			cmd.Process.Kill()
			err = <-done
		}
		return []byte(buf.String()), err, true
	}
}

// libStacks keeps the goroutines of a dump that run library or harness code.
func libStacks(dump string) string {
	var keep []string
	for _, g := range strings.Split(dump, "\n\n") {
		if strings.Contains(g, "goirc/client") || strings.Contains(g, "verifharness/") {
			if len(g) > 1500 {
				g = g[:1500]
			}
			keep = append(keep, g)
		}
	}
	return strings.Join(keep, "\n\n")
}

// C02Finding is one violation of C02 found by the sweep.
type C02Finding struct {
	Kind     string `json:"kind"` // accessor-panic | process-died | marker-lost | order | disconnected
	Input    string `json:"input"`
	Where    string `json:"where"`
	Detail   string `json:"detail"`
	Tracking bool   `json:"tracking"`
	Count    int    `json:"count"`
}

type sweepSummary struct {
	FuncInputs   int            `json:"function_inputs"`
	FuncParsed   int            `json:"function_inputs_parsed"`
	PanicClasses []*panicClass  `json:"panic_classes"`
	ConnLines    int            `json:"connection_probe_lines"`
	ConnSessions int            `json:"connection_sessions"`
	Markers      int            `json:"markers_dispatched"`
	Recovered    int            `json:"handler_panics_recovered"`
	Findings     []C02Finding   `json:"findings"`
	Samples      []string       `json:"samples"`
	Params       map[string]int `json:"params"`
	WallS        float64        `json:"wall_s"`
	Incomplete   string         `json:"incomplete,omitempty"`
}

// RunSweep is the C02 driver.
func RunSweep(args []string) int {
	fs := flag.NewFlagSet("irc-sweep", flag.ExitOnError)
	maxLen := fs.Int("len", 5, "maximal length of the exhaustive character sweep")
	sufLen := fs.Int("suffix", 3, "maximal length of the suffix after a verb word")
	soups := fs.Int("soups", 200, "random line soups")
	soupLen := fs.Int("souplen", 20, "lines per soup")
	seed := fs.Int64("seed", 1, "seed")
	extra := fs.String("extra", "", "file with extra input lines (one JSON string per line), e.g. a fuzzing corpus")
	fs.Parse(args)
	start := time.Now()
	sum := sweepSummary{Params: map[string]int{"len": *maxLen, "suffix": *sufLen, "soups": *soups, "souplen": *soupLen, "alphabet": len(sweepChars), "words": len(sweepWords)}}
	acc := &sweepAcc{classes: map[string]*panicClass{}}
	// (1) function-level sweeps
	var jobs []func(func(string))
	jobs = append(jobs, func(f func(string)) { f("") })
	for _, a := range sweepChars {
		a := a
		for _, b := range sweepChars {
			b := b
			if *maxLen >= 2 {
				jobs = append(jobs, func(f func(string)) { enumerate(sweepChars, *maxLen-2, a+b, f) })
			}
		}
		jobs = append(jobs, func(f func(string)) { f(a) })
	}
	for _, p := range sweepPrefixes {
		for _, w := range sweepWords {
			p, w := p, w
			jobs = append(jobs, func(f func(string)) { enumerate(sweepChars, *sufLen, p+w, f) })
			jobs = append(jobs, func(f func(string)) { enumerate(sweepChars, *sufLen-1, p+strings.ToLower(w)+" "+w, f) })
		}
	}
	probes := handlerProbes()
	jobs = append(jobs, func(f func(string)) {
		for _, l := range probes {
			f(l)
		}
	})
	var extraLines []string
	if *extra != "" {
		if b, err := os.ReadFile(*extra); err == nil {
			for _, l := range strings.Split(string(b), "\n") {
				var s string
				if json.Unmarshal([]byte(l), &s) == nil && s != "" {
					extraLines = append(extraLines, s)
				}
			}
		}
		jobs = append(jobs, func(f func(string)) {
			for _, l := range extraLines {
				f(l)
			}
		})
	}
	sweepParallel(acc, jobs)
	sum.FuncInputs, sum.FuncParsed = acc.n, acc.parsed
	for _, c := range acc.classes {
		sum.PanicClasses = append(sum.PanicClasses, c)
	}
	sort.Slice(sum.PanicClasses, func(i, j int) bool {
		return sum.PanicClasses[i].Where+sum.PanicClasses[i].Msg < sum.PanicClasses[j].Where+sum.PanicClasses[j].Msg
	})
	for _, c := range sum.PanicClasses {
		if c.Where != "ParseLine" {
			// Text/Target/Public panicked on a line the parser produced: a violation by itself
			sum.Findings = append(sum.Findings, C02Finding{Kind: "accessor-panic", Input: c.Example, Where: c.Where, Detail: c.Msg, Count: c.Count})
		}
	}
	// (2) connection level: panicking inputs (shortest first, bounded), then (3) handler probes and soups
	rng := rand.New(rand.NewSource(*seed))
	sort.Slice(acc.inputs, func(i, j int) bool {
		if len(acc.inputs[i]) != len(acc.inputs[j]) {
			return len(acc.inputs[i]) < len(acc.inputs[j])
		}
		return acc.inputs[i] < acc.inputs[j]
	})
	var connLines []string
	seenIn := map[string]bool{}
	for _, in := range acc.inputs {
		t := strings.Trim(in, "\r\n")
		if t == "" || strings.ContainsAny(t, "\r\n") || seenIn[t] {
			continue
		}
		seenIn[t] = true
		if len(connLines) < 300 {
			connLines = append(connLines, t)
		}
	}
	// Lines on which ParseLine panics kill the process (recv has no recover). One
	// representative per panic class is sent alone, to confirm the death on a real
	// connection; all other sessions leave such lines out so that they can finish.
	parsePanics := func(l string) bool { w, _, _ := probe(l); return w == "ParseLine" }
	filter := func(ls []string) []string {
		var r []string
		for _, l := range ls {
			if !parsePanics(l) {
				r = append(r, l)
			}
		}
		return r
	}
	batches := [][]string{}
	for _, c := range sum.PanicClasses {
		if c.Where == "ParseLine" {
			if t := strings.Trim(c.Example, "\r\n"); t != "" && !strings.ContainsAny(t, "\r\n") {
				batches = append(batches, []string{t})
			}
		}
	}
	if cl := filter(connLines); len(cl) > 0 {
		batches = append(batches, cl)
	}
	connLines = filter(connLines)
	probes = filter(probes)
	for off := 0; off < len(probes); off += 1500 {
		end := off + 1500
		if end > len(probes) {
			end = len(probes)
		}
		batches = append(batches, probes[off:end])
	}
	wellFormed := []string{":other!u@h PRIVMSG #c :hello there", ":srv 372 me :- motd", ":other!u@h JOIN #c", ":me!i@h JOIN #c",
		":srv 353 me = #c :@other +me x", ":other!u@h NICK :newer", "PING :tok", ":srv NOTICE me :hi"}
	pool := append(append([]string{}, probes...), connLines...)
	for i := 0; i < *soups; i++ {
		var soup []string
		for k := 0; k < *soupLen; k++ {
			switch rng.Intn(4) {
			case 0:
				soup = append(soup, wellFormed[rng.Intn(len(wellFormed))])
			case 1:
				// random bytes from the special alphabet plus words
				var b strings.Builder
				for n := rng.Intn(12); n >= 0; n-- {
					if rng.Intn(4) == 0 {
						b.WriteString(sweepWords[rng.Intn(len(sweepWords))])
					} else {
						b.WriteString(sweepChars[rng.Intn(len(sweepChars))])
					}
				}
				if t := strings.Trim(b.String(), "\r\n"); t != "" && !parsePanics(t) {
					soup = append(soup, t)
				}
			default:
				soup = append(soup, pool[rng.Intn(len(pool))])
			}
		}
		soup = append(soup, wellFormed...)
		batches = append(batches, soup)
	}
	// stateful sessions for the state-tracking handlers: joins, parts, kicks, quits, renames and mode changes of
	// four nicks on two channels in random order - also for nicks that are not on the channel named
	{
		nicks := []string{"me", "a", "b", "zz"}
		chans := []string{"#x", "#y"}
		for i := 0; i < 3; i++ {
			var seq []string
			for k := 0; k < 400; k++ {
				n, c := nicks[rng.Intn(4)], chans[rng.Intn(2)]
				src := ":" + n + "!i@h "
				switch rng.Intn(9) {
				case 0, 1, 2:
					seq = append(seq, src+"JOIN "+c)
				case 3:
					seq = append(seq, src+"PART "+c)
				case 4:
					seq = append(seq, src+"KICK "+c+" "+nicks[rng.Intn(4)]+" :x")
				case 5:
					seq = append(seq, src+"MODE "+c+" +o-v "+nicks[rng.Intn(4)]+" "+nicks[rng.Intn(4)])
				case 6:
					seq = append(seq, ":irc 353 me = "+c+" :me @a +b zz")
				case 7:
					if n != "me" {
						seq = append(seq, src+"QUIT :bye")
					}
				default:
					seq = append(seq, src+"TOPIC "+c+" :t")
				}
			}
			batches = append(batches, seq)
		}
	}
	if len(extraLines) > 0 {
		var ex []string
		for _, l := range extraLines {
			if t := strings.Trim(l, "\r\n"); t != "" && !strings.ContainsAny(t, "\r\n") && !parsePanics(t) {
				ex = append(ex, t)
			}
		}
		for off := 0; off < len(ex); off += 1500 {
			end := off + 1500
			if end > len(ex) {
				end = len(ex)
			}
			batches = append(batches, ex[off:end])
		}
	}
	died := map[string]bool{}
	type outcome struct {
		res      survResult
		crashes  []Crash
		err      error
		tracking bool
		lines    int
	}
	results := make(chan outcome, 64)
	var wg sync.WaitGroup
	sem := make(chan struct{}, runtime.NumCPU())
	go func() {
		for bi, bl := range batches {
			for _, tr := range []bool{false, true} {
				wg.Add(1)
				sem <- struct{}{}
				go func(bl []string, tr bool, sd int64) {
					defer wg.Done()
					defer func() { <-sem }()
					r, cr, err := surviveChild(bl, tr, sd)
					results <- outcome{r, cr, err, tr, len(bl)}
				}(bl, tr, *seed*1000+int64(bi))
			}
		}
		wg.Wait()
		close(results)
	}()
	for o := range results {
		sum.ConnSessions++
		sum.ConnLines += o.lines
		if o.err != nil {
			sum.Incomplete = o.err.Error()
			continue
		}
		for _, c := range o.crashes {
			key := c.Line
			if died[key] {
				continue
			}
			died[key] = true
			sum.Findings = append(sum.Findings, C02Finding{Kind: "process-died", Input: c.Line, Where: "recv", Detail: c.Panic, Tracking: o.tracking, Count: 1})
		}
		sum.Markers += o.res.Dispatched
		sum.Recovered += o.res.Recovered
		if o.res.Err != "" && o.res.Order {
			sum.Findings = append(sum.Findings, C02Finding{Kind: "disconnected", Detail: o.res.Err, Tracking: o.tracking, Count: 1})
		}
		for _, l := range o.res.Lost {
			sum.Findings = append(sum.Findings, C02Finding{Kind: "marker-lost", Input: l, Detail: "the well-formed marker line after this probe was never dispatched", Tracking: o.tracking, Count: 1})
		}
		if !o.res.Order {
			sum.Findings = append(sum.Findings, C02Finding{Kind: "order", Detail: "markers dispatched out of order: " + o.res.Err, Tracking: o.tracking, Count: 1})
		}
	}
	sum.Samples = []string{probes[17%len(probes)], probes[len(probes)/2], "@a=b :a!b@c PRIVMSG\x01 :"}
	sum.WallS = time.Since(start).Seconds()
	b, _ := json.Marshal(sum)
	fmt.Println("SUMMARY " + string(b))
	if sum.Incomplete != "" {
		return 3
	}
	if len(sum.Findings) > 0 {
		return 1
	}
	return 0
}
