// Package caps replays the state graph of spec/Caps.tla (capability
// negotiation and SASL) on a real client over a real connection (C19).
package caps

import (
	"bufio"
	"bytes"
	"encoding/base64"
	"encoding/json"
	"flag"
	"fmt"
	"io"
	"math/rand"
	"os"
	"sort"
	"strconv"
	"strings"
	"time"

	sasl "github.com/emersion/go-sasl"
	"github.com/fluffle/goirc/client"
	"verifharness/sess"
)

type capEntry struct {
	C  string `json:"c"`
	On bool   `json:"on"`
}

type lineRec struct {
	Verb string          `json:"verb"`
	Caps json.RawMessage `json:"caps"`
}

type opRec struct {
	Ev     string   `json:"ev"`
	Line   lineRec  `json:"line"`
	Expect []string `json:"expect"`
	Req    []string `json:"req"`
}

type stateRec struct {
	Wanted []string `json:"wanted"`
	Mech   string   `json:"mech"`
	Adv    []string `json:"adv"`
	Held   []string `json:"held"`
	Phase  string   `json:"phase"`
	Gen    int      `json:"gen"`
	Steps  int      `json:"steps"`
}

type edge struct {
	F  json.RawMessage `json:"f"`
	O  opRec           `json:"o"`
	T  json.RawMessage `json:"t"`
	ts stateRec
}

func key(b json.RawMessage) string {
	var o bytes.Buffer
	json.Compact(&o, b)
	return o.String()
}

const callerSlot = "the-caller's-own-next-element"

const (
	authz, user, pass = "authz", "user", "sekrit-pass"
	extIdentity       = ""
)

type rig struct {
	s       *sess.Session
	seen    int
	mech    string
	disc    chan struct{}
	nrec    int
	backing []string
}

func newRig(st *stateRec) (*rig, string) {
	r := &rig{mech: st.Mech}
	r.s = sess.New(func(c *client.Config) {
		c.EnableCapabilityNegotiation = true
		// the caller's list has spare capacity, the slot behind it holds something of the caller's
		backing := make([]string, len(st.Wanted), len(st.Wanted)+2)
		copy(backing, st.Wanted)
		backing[:len(st.Wanted)+1][len(st.Wanted)] = callerSlot
		r.backing = backing
		c.Capabilites = backing
		switch st.Mech {
		case "PLAIN":
			c.Sasl = sasl.NewPlainClient(authz, user, pass)
		case "EXTERNAL":
			c.Sasl = sasl.NewExternalClient(extIdentity)
		case "LOGIN":
			c.Sasl = sasl.NewLoginClient(user, pass)
		}
	})
	r.disc = make(chan struct{}, 16)
	r.s.C.HandleFunc(client.DISCONNECTED, func(*client.Conn, *client.Line) { r.disc <- struct{}{} })
	if err := r.s.Connect(); err != nil {
		return nil, err.Error()
	}
	if _, ok := r.s.Srv.WaitLine("USER ", 0, 5*time.Second); !ok {
		return nil, "no registration burst"
	}
	l, _ := r.s.Srv.Lines()
	r.seen = len(l)
	if len(l) < 3 || l[0] != "CAP LS" {
		return r, fmt.Sprintf("registration burst %q does not start with CAP LS", l)
	}
	return r, ""
}

func (r *rig) newLines() []string {
	l, _ := r.s.Srv.Lines()
	var res []string
	for _, x := range l[r.seen:] {
		if !strings.HasPrefix(x, "PONG :sync-") {
			res = append(res, x)
		}
	}
	r.seen = len(l)
	return res
}

func render(o *opRec) string {
	switch o.Line.Verb {
	case "LS":
		var caps []string
		json.Unmarshal(o.Line.Caps, &caps)
		return ":irc.example.net CAP * LS :" + strings.Join(caps, " ")
	case "ACK":
		var es []capEntry
		json.Unmarshal(o.Line.Caps, &es)
		var caps []string
		for _, e := range es {
			if e.On {
				caps = append(caps, e.C)
			} else {
				caps = append(caps, "-"+e.C)
			}
		}
		return ":irc.example.net CAP me ACK :" + strings.Join(caps, " ")
	case "NAK":
		var caps []string
		json.Unmarshal(o.Line.Caps, &caps)
		if len(caps) == 0 {
			return ":irc.example.net CAP me NAK :whatever"
		}
		return ":irc.example.net CAP me NAK :" + strings.Join(caps, " ")
	case "AUTHENTICATE":
		return "AUTHENTICATE +"
	case "CHALLENGE":
		return "AUTHENTICATE " + base64.StdEncoding.EncodeToString([]byte("Password:"))
	case "903":
		return ":irc.example.net 903 me :SASL authentication successful"
	case "904":
		return ":irc.example.net 904 me :SASL authentication failed"
	case "908":
		return ":irc.example.net 908 me PLAIN,EXTERNAL :are available SASL mechanisms"
	case "CONNECTAGAIN":
		return "(Connect called while connected: refused)"
	case "RECONNECT":
		return "(the connection ends; Connect again)"
	}
	return ""
}

func payload(mech string) string {
	switch mech {
	case "PLAIN":
		return base64.StdEncoding.EncodeToString([]byte(authz + "\x00" + user + "\x00" + pass))
	case "EXTERNAL":
		if extIdentity == "" {
			return "+"
		}
		return base64.StdEncoding.EncodeToString([]byte(extIdentity))
	case "LOGIN":
		return base64.StdEncoding.EncodeToString([]byte(user))
	}
	return ""
}

// reconnect ends the connection (alternately by the server and by Close) and connects again;
// it returns the CAP / AUTHENTICATE lines of the new connection's registration burst.
func (r *rig) reconnect() ([]string, string) {
	r.nrec++
	if r.nrec%2 == 1 {
		r.s.Srv.EOF()
	} else {
		go r.s.C.Close()
	}
	select {
	case <-r.disc:
	case <-time.After(5 * time.Second):
		return nil, "no DISCONNECTED after the connection ended"
	}
	if err := r.s.Connect(); err != nil {
		return nil, "Connect after DISCONNECTED: " + err.Error()
	}
	if _, ok := r.s.Srv.WaitLine("USER ", 0, 5*time.Second); !ok {
		return nil, "no registration burst on the new connection"
	}
	r.seen = 0
	if !r.s.Sync(5 * time.Second) {
		return nil, "the reconnected client does not answer PING"
	}
	var got []string
	for _, x := range r.newLines() {
		if strings.HasPrefix(x, "CAP ") || strings.HasPrefix(x, "AUTHENTICATE") {
			got = append(got, x)
		}
	}
	return got, ""
}

func (r *rig) apply(e *edge, check bool, universe []string) string {
	var got []string
	if e.O.Ev == "reconnect" {
		var msg string
		if got, msg = r.reconnect(); msg != "" {
			return msg
		}
	} else if e.O.Ev == "connectagain" {
		if err := r.s.C.Connect(); err == nil {
			return "Connect on a connected client was not refused"
		}
		if !r.s.Sync(5 * time.Second) {
			return "the client stopped answering PING after a refused Connect"
		}
		got = r.newLines()
	} else {
		r.s.Srv.SendLines(render(&e.O))
		if !r.s.Sync(5 * time.Second) {
			return "the client stopped answering PING after " + e.O.Ev
		}
		got = r.newLines()
	}
	if !check {
		return ""
	}
	var msgs []string
	// expected output; CAP REQ lines are compared as the union of their capabilities (a long request may be split)
	var want []string
	for _, x := range e.O.Expect {
		x = strings.Replace(x, "<LOGIN2>", base64.StdEncoding.EncodeToString([]byte(pass)), 1)
		want = append(want, strings.Replace(x, "<"+r.mech+">", payload(r.mech), 1))
	}
	var reqCaps, rest []string
	for _, g := range got {
		if strings.HasPrefix(g, "CAP REQ :") {
			reqCaps = append(reqCaps, strings.Fields(g[len("CAP REQ :"):])...)
		} else {
			rest = append(rest, g)
		}
	}
	wantReq := append([]string{}, e.O.Req...)
	sort.Strings(wantReq)
	sort.Strings(reqCaps)
	var wantRest []string
	for _, w := range want {
		if w != "CAP REQ" {
			wantRest = append(wantRest, w)
		}
	}
	if strings.Join(reqCaps, " ") != strings.Join(wantReq, " ") {
		msgs = append(msgs, fmt.Sprintf("after %s the client requested %q, wanted and advertised are %q", e.O.Ev, reqCaps, wantReq))
	}
	// several CAP END are allowed: compare with duplicates of CAP END collapsed
	collapse := func(l []string) string {
		var r []string
		for _, x := range l {
			if x == "CAP END" && len(r) > 0 && r[len(r)-1] == "CAP END" {
				continue
			}
			r = append(r, x)
		}
		return strings.Join(r, " | ")
	}
	if collapse(rest) != collapse(wantRest) {
		msgs = append(msgs, fmt.Sprintf("after %s (%s) the client wrote %q, the model expects %q", e.O.Ev, render(&e.O), rest, wantRest))
	}
	if b := r.backing; b != nil && b[:len(b)+1][len(b)] != callerSlot {
		msgs = append(msgs, fmt.Sprintf("the client wrote %q into the caller's capability list (behind Config.Capabilites)", b[:len(b)+1][len(b)]))
	}
	held := map[string]bool{}
	for _, c := range e.ts.Held {
		held[c] = true
	}
	adv := map[string]bool{}
	for _, c := range e.ts.Adv {
		adv[c] = true
	}
	for _, c := range universe {
		if r.s.C.HasCapability(c) != held[c] {
			msgs = append(msgs, fmt.Sprintf("HasCapability(%q) = %v after %s, the latest acknowledgement says %v", c, !held[c], render(&e.O), held[c]))
		}
		if r.s.C.SupportsCapability(c) != adv[c] {
			msgs = append(msgs, fmt.Sprintf("SupportsCapability(%q) = %v, advertised: %v", c, !adv[c], adv[c]))
		}
	}
	return strings.Join(msgs, "; ")
}

type node struct {
	parent string
	e      *edge
	root   bool
	st     stateRec
}

type Failure struct {
	Property string   `json:"property"`
	Config   stateRec `json:"config"`
	Path     []*edge  `json:"path"`
	Edge     *edge    `json:"edge"`
	Detail   string   `json:"detail"`
}

func pathTo(nodes map[string]*node, k string) ([]*edge, *stateRec) {
	var p []*edge
	for {
		n := nodes[k]
		if n == nil {
			return p, nil
		}
		if n.root {
			for i, j := 0, len(p)-1; i < j; i, j = i+1, j-1 {
				p[i], p[j] = p[j], p[i]
			}
			return p, &n.st
		}
		p = append(p, n.e)
		k = n.parent
	}
}

// RunEdges reads TLC output of MCCaps on stdin.
func RunEdges(args []string) int {
	fs := flag.NewFlagSet("caps-edges", flag.ExitOnError)
	out := fs.String("out", ".", "directory for failure artefacts")
	replay := fs.String("replay", "", "re-run a failure artefact")
	long := fs.Int("long", 0, "additional sessions with this many long capability names (forces CAP REQ to be split)")
	seed := fs.Int64("seed", 1, "seed")
	fs.Parse(args)
	universe := []string{"a", "b", "c", "sasl"}
	if *replay != "" {
		b, err := os.ReadFile(*replay)
		if err != nil {
			return 2
		}
		var f Failure
		if json.Unmarshal(b, &f) != nil {
			return 2
		}
		r, msg := newRig(&f.Config)
		if r == nil || msg != "" {
			fmt.Println(msg)
			return 1
		}
		defer r.s.Close()
		for _, e := range f.Path {
			r.apply(e, false, universe)
		}
		json.Unmarshal(f.Edge.T, &f.Edge.ts)
		m := r.apply(f.Edge, true, universe)
		fmt.Println(render(&f.Edge.O), "->", m)
		if m != "" {
			return 1
		}
		return 0
	}
	start := time.Now()
	nodes := map[string]*node{}
	sum := map[string]interface{}{}
	edges, states, failures, sessions := 0, 0, 0, 0
	events := map[string]int{}
	var files []string
	var samples []interface{}
	var cur *rig
	curKey := ""
	defer func() {
		if cur != nil {
			cur.s.Close()
		}
	}()
	var pending []*edge
	do := func(e *edge) bool {
		fk, tk := key(e.F), key(e.T)
		if _, ok := nodes[fk]; !ok {
			var fs stateRec
			json.Unmarshal(e.F, &fs)
			if fs.Steps != 0 {
				return false
			}
			nodes[fk] = &node{root: true, st: fs}
			states++
		}
		json.Unmarshal(e.T, &e.ts)
		if _, ok := nodes[tk]; !ok {
			nodes[tk] = &node{parent: fk, e: e}
			states++
		}
		edges++
		events[e.O.Ev]++
		if cur == nil || curKey != fk {
			if cur != nil {
				cur.s.Close()
			}
			p, cfg := pathTo(nodes, fk)
			var msg string
			cur, msg = newRig(cfg)
			sessions++
			if cur == nil || msg != "" {
				fmt.Println("MISMATCH at connect:", msg)
				failures++
				cur = nil
				return true
			}
			for _, pe := range p {
				cur.apply(pe, false, universe)
			}
		}
		msg := cur.apply(e, true, universe)
		curKey = tk
		if len(samples) < 3 && e.O.Ev == "ack" {
			samples = append(samples, map[string]interface{}{"line": render(&e.O), "expect": e.O.Expect})
		}
		if msg != "" {
			failures++
			if failures <= 5 {
				p, cfg := pathTo(nodes, fk)
				f := Failure{Property: "C19", Config: *cfg, Path: p, Edge: e, Detail: msg}
				name := fmt.Sprintf("%s/caps-fail-%03d.json", *out, failures)
				b, _ := json.MarshalIndent(f, "", " ")
				if os.WriteFile(name, b, 0o644) == nil {
					files = append(files, name)
				}
				fmt.Println("MISMATCH", msg)
			}
			cur.s.Close()
			cur = nil
		}
		return true
	}
	in := bufio.NewReaderSize(os.Stdin, 1<<20)
	for {
		line, err := in.ReadString('\n')
		if strings.HasPrefix(line, "\"EDGE ") {
			s, uerr := strconv.Unquote(strings.TrimSpace(line))
			if uerr != nil {
				return 2
			}
			e := &edge{}
			if jerr := json.Unmarshal([]byte(s[5:]), e); jerr != nil {
				fmt.Fprintf(os.Stderr, "cannot parse edge: %v: %.300s\n", jerr, s)
				return 2
			}
			if failures >= 25 {
				continue // enough evidence; skip the remaining edges
			}
			if !do(e) {
				pending = append(pending, e)
			}
		} else if len(line) > 0 {
			fmt.Print("TLC: " + line)
		}
		if err == io.EOF {
			break
		}
		if err != nil {
			return 2
		}
	}
	for progress := true; progress && len(pending) > 0; {
		progress = false
		var rest []*edge
		for _, e := range pending {
			if do(e) {
				progress = true
			} else {
				rest = append(rest, e)
			}
		}
		pending = rest
	}
	// long capability lists: the request must be split; union and no duplicates
	rng := rand.New(rand.NewSource(*seed))
	longOK := 0
	for i := 0; i < *long; i++ {
		n := 40 + rng.Intn(80)
		var all []string
		for k := 0; k < n; k++ {
			all = append(all, fmt.Sprintf("vendor.example/capability-number-%03d-%d", k, rng.Intn(1000)))
		}
		wantedSet := map[string]bool{}
		var wanted, advl []string
		for _, c := range all {
			w, a := rng.Intn(4) != 0, rng.Intn(5) != 0
			if w {
				wanted = append(wanted, c)
			}
			if a {
				advl = append(advl, c)
			}
			wantedSet[c] = w && a
		}
		st := &stateRec{Wanted: wanted, Mech: "none"}
		r, msg := newRig(st)
		if r == nil || msg != "" {
			fmt.Println("MISMATCH at connect:", msg)
			failures++
			continue
		}
		// a server may advertise in several LS lines only with CAP 302; the client asks for plain LS: one line
		r.s.Srv.SendLines(":irc.example.net CAP * LS :" + strings.Join(advl, " "))
		r.s.Sync(5 * time.Second)
		got := r.newLines()
		seen := map[string]int{}
		bad := ""
		for _, g := range got {
			if strings.HasPrefix(g, "CAP REQ :") {
				for _, c := range strings.Fields(g[len("CAP REQ :"):]) {
					seen[c]++
				}
				if len(g) > 510 {
					bad = fmt.Sprintf("a CAP REQ line is %d bytes long", len(g))
				}
			} else if g != "CAP END" {
				bad = "unexpected line " + g
			}
		}
		for c, w := range wantedSet {
			if w && seen[c] != 1 {
				bad = fmt.Sprintf("%s (wanted and advertised) requested %d times", c, seen[c])
			}
			if !w && seen[c] != 0 {
				bad = fmt.Sprintf("%s requested although not both wanted and advertised", c)
			}
		}
		r.s.Close()
		if bad != "" {
			failures++
			fmt.Println("MISMATCH long list:", bad)
			name := fmt.Sprintf("%s/caps-long-%03d.json", *out, failures)
			b, _ := json.Marshal(map[string]interface{}{"property": "C19", "detail": bad, "wanted": wanted, "advertised": advl, "got": got})
			if os.WriteFile(name, b, 0o644) == nil {
				files = append(files, name)
			}
		} else {
			longOK++
		}
	}
	sum["edges"], sum["states"], sum["failures"], sum["sessions"] = edges, states, failures, sessions
	sum["event_counts"], sum["failure_files"], sum["samples"] = events, files, samples
	sum["edges_with_unknown_source"], sum["long_lists_ok"] = len(pending), longOK
	sum["wall_s"] = time.Since(start).Seconds()
	b, _ := json.Marshal(sum)
	fmt.Println("SUMMARY " + string(b))
	if failures > 0 {
		return 1
	}
	return 0
}
