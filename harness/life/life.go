// Package life drives the connection lifecycle of a real client.Conn through
// the scenario families of spec/Conn.tla (C06, C07) and records what a user
// can observe: return of Close, lifecycle events, Connected() samples,
// goroutines left behind, the next connection's transcript.
package life

import (
	"context"
	"crypto/tls"
	"encoding/json"
	"errors"
	"flag"
	"fmt"
	"math/rand"
	"os"
	"runtime"
	"sort"
	"strings"
	"sync"
	"sync/atomic"
	"time"

	"github.com/fluffle/goirc/client"
	"verifharness/fakenet"
	"verifharness/sess"
	"verifharness/tracer"
)

// Scenario is one point of the scenario space.
type Scenario struct {
	ID           int      `json:"id"`
	In           int      `json:"in"`      // inbound backlog (lines) pending when the cause strikes
	Segs         int      `json:"segs"`    // number of read chunks the backlog arrives in
	Out          int      `json:"out"`     // outbound lines produced while the server is not reading
	OutBy        string   `json:"out_by"`  // handler | user | none
	Handler      string   `json:"handler"` // idle | running | sending
	Causes       []string `json:"causes"`  // close, close2, close3, eof, readerr, writeerr, cancel
	Flood        bool     `json:"flood"`   // flood control active (Config.Flood == false)
	Tracking     bool     `json:"tracking"`
	Ping         bool     `json:"ping"`
	CtxDial      bool     `json:"ctx_dial"`
	Reconnect    string   `json:"reconnect"` // none | handler | other
	Cycles       int      `json:"cycles"`
	ConnectUp    bool     `json:"connect_while_up"` // call Connect while connected (must be refused, harmlessly)
	Storm        bool     `json:"storm"`            // many quick cycles of coinciding causes (no settle time between them)
	Calls        string   `json:"calls"`            // what the handlers call while the disconnect is in progress: "" | me | connected
	FailFirst    string   `json:"fail_first"`       // "" | dial | tls: a Connect that fails (dial error, TLS handshake failure) precedes the session
	RegClose     bool     `json:"reg_close"`        // a user REGISTER handler (it runs on the caller of Connect) calls Close()
	CancelAtDial bool     `json:"cancel_at_dial"`   // the context of ConnectContext is cancelled the moment the dial completes
	Eager        bool     `json:"eager"`            // reconnect "other" does not wait for DISCONNECTED: Connect is called as soon as Connected() is false
	BgDisc       bool     `json:"bg_disc"`          // a background DISCONNECTED handler that keeps running until the scenario is over
	DiscClose    bool     `json:"disc_close"`       // the DISCONNECTED handler calls Close(): the client is not connected, it must do nothing (and return)
}

func (s Scenario) Key() string {
	return fmt.Sprintf("in=%s out=%s/%s handler=%s causes=%s flood=%v reconnect=%s up=%v calls=%s",
		backlogClass(s.In), backlogClass(s.Out), s.OutBy, s.Handler, strings.Join(s.Causes, "+"), s.Flood, s.Reconnect, s.ConnectUp, s.Calls) + map[bool]string{true: " storm", false: ""}[s.Storm] + map[bool]string{true: " disc-close", false: ""}[s.DiscClose] + map[bool]string{true: " lingering-bg-DISCONNECTED", false: ""}[s.BgDisc] + map[bool]string{true: " cancel-at-dial", false: ""}[s.CancelAtDial] + map[bool]string{true: " eager-reconnect", false: ""}[s.Eager] + map[bool]string{true: " close-from-REGISTER-handler", false: ""}[s.RegClose] + map[bool]string{true: " after-failed-" + s.FailFirst, false: ""}[s.FailFirst != ""]
}

var qcap = 32

func backlogClass(n int) string {
	switch {
	case n == 0:
		return "0"
	case n <= qcap:
		return "<=cap"
	case n <= 2*qcap:
		return "<=2cap"
	default:
		return ">2cap"
	}
}

// Problem is an observed violation.
type Problem struct {
	Property string `json:"property"`
	Kind     string `json:"kind"`
	Detail   string `json:"detail"`
	Cycle    int    `json:"cycle"`
}

// Result of one scenario.
type Result struct {
	Scenario Scenario  `json:"scenario"`
	Problems []Problem `json:"problems"`
	Events   []string  `json:"events"`
	CloseMs  float64   `json:"close_ms"`
	Skipped  string    `json:"skipped,omitempty"`
}

// internal goroutines of the library: anything else that still runs library
// code after a disconnect (a user goroutine blocked in Raw after DISCONNECTED)
// is outside the claim.
var internalMarks = []string{"client.(*Conn).recv(", "client.(*Conn).send(", "client.(*Conn).runLoop(", "client.(*Conn).ping(",
	"client.(*Conn).Close(", "client.(*Conn).close(", "client.(*Conn).postConnect.func", "client.(*Conn).write("}

func internalGoroutines() []string {
	var res []string
	for _, g := range sess.LibGoroutines() {
		for _, m := range internalMarks {
			if strings.Contains(g, m) {
				res = append(res, g)
				break
			}
		}
	}
	return res
}

func waitNoInternal(d time.Duration) []string {
	deadline := time.Now().Add(d)
	for {
		g := internalGoroutines()
		if len(g) == 0 || time.Now().After(deadline) {
			return g
		}
		time.Sleep(2 * time.Millisecond)
	}
}

func shortStacks(gs []string) string {
	var out []string
	for _, g := range gs {
		lines := strings.Split(g, "\n")
		var fns []string
		for i, l := range lines {
			if i == 0 {
				fns = append(fns, l)
				continue
			}
			if !strings.HasPrefix(l, "\t") && (strings.Contains(l, "goirc/client") || strings.Contains(l, "sync.") || strings.Contains(l, "runtime.chan") || strings.Contains(l, "runtime.select")) {
				if i := strings.Index(l, "("); i > 0 {
					l = l[:strings.LastIndex(l, "(")]
				}
				fns = append(fns, strings.TrimPrefix(l, "github.com/fluffle/goirc/"))
			}
		}
		if len(fns) > 7 {
			fns = fns[:7]
		}
		out = append(out, strings.Join(fns, " < "))
	}
	sort.Strings(out)
	return strings.Join(out, " || ")
}

type runner struct {
	sc        Scenario
	res       *Result
	s         *sess.Session
	mu        sync.Mutex
	reg       int32
	con       int32
	disc      int32
	discCh    chan struct{}
	samples   []string
	held      chan struct{}
	release   chan struct{}
	fill      int32
	stopped   int32              // set when DISCONNECTED was seen: user senders stop
	bgRets    chan time.Duration // Close calls made by the background handler of the "bgclose" cause
	bgStarted int32              // ... that have begun (a coinciding cause may discard the triggering line)
	bgDone    int32
	over      chan struct{} // closed when the scenario is over (lingering background handlers leave)
	useq      int32         // ids of user lines, unique over the whole scenario
	umu       sync.Mutex
	returned  []int        // ids of user lines whose Raw call has returned
	stale     map[int]bool // ids whose call had returned when a DISCONNECTED handler started: accepted by an earlier connection
	ctx       context.Context
	cancel    context.CancelFunc
	cycle     int
	recon     chan error
	deadline  time.Duration
}

// apiCalls: what a running handler may call on the client while a disconnect
// is in progress (the accessors a handler typically uses).
func (r *runner) apiCalls(c *client.Conn) {
	switch r.sc.Calls {
	case "me":
		if c.Me() == nil {
			r.problem("C17", "me-nil", "Me() returned nil inside a handler")
		}
		c.StateTracker()
		c.Config()
	case "connected":
		c.Connected()
	}
}

func (r *runner) problem(prop, kind, detail string) {
	r.mu.Lock()
	r.res.Problems = append(r.res.Problems, Problem{prop, kind, detail, r.cycle})
	r.mu.Unlock()
}

func (r *runner) event(s string) {
	r.mu.Lock()
	if len(r.res.Events) < 60 {
		r.res.Events = append(r.res.Events, s)
	}
	r.mu.Unlock()
}

func (r *runner) connect() error {
	if r.sc.CtxDial || contains(r.sc.Causes, "cancel") {
		r.ctx, r.cancel = context.WithCancel(context.Background())
		before := len(r.s.Net.Dials())
		err := r.s.C.ConnectContext(r.ctx)
		if d := r.s.Net.Dials(); len(d) > before && err == nil {
			r.s.Srv = d[len(d)-1].Conn
		}
		return err
	}
	return r.s.Connect()
}

// failedConnect makes one Connect fail after the "already connected" test - the dial is refused, or the
// TLS handshake fails on a socket that was dialled successfully - and checks that it left nothing behind:
// no event, Connected() false, Close() a no-op.
func (r *runner) failedConnect() bool {
	s := r.s
	switch r.sc.FailFirst {
	case "dial":
		s.Net.OnDial = func(string) (*fakenet.Conn, error) { return nil, errors.New("fakenet: connection refused") }
	case "tls":
		s.Cfg.SSL = true
		s.Cfg.SSLConfig = &tls.Config{InsecureSkipVerify: true}
		s.Net.OnDial = func(string) (*fakenet.Conn, error) {
			c := fakenet.NewConn()
			c.SendLines(":irc.example.net NOTICE * :this server does not speak TLS")
			c.EOF()
			return c, nil
		}
	}
	err := r.connect()
	s.Net.OnDial = nil
	s.Cfg.SSL = false
	if err == nil {
		r.res.Skipped = "the connect that should fail succeeded"
		return false
	}
	if s.C.Connected() {
		r.problem("C06", "failed-connect-left-connected", "Connected() is true after a Connect that failed with: "+err.Error())
	}
	done := make(chan struct{})
	go func() { s.C.Close(); close(done) }()
	select {
	case <-done:
	case <-time.After(r.deadline):
		r.problem("C06", "close-after-failed-connect-blocks", "Close() after a failed Connect did not return")
		return false
	}
	time.Sleep(20 * time.Millisecond)
	if n := atomic.LoadInt32(&r.reg); n != 0 {
		r.problem("C06", "failed-connect-fired-event", fmt.Sprintf("REGISTER dispatched %d times by a Connect that failed", n))
	}
	if n := atomic.LoadInt32(&r.disc); n != 0 {
		r.problem("C06", "failed-connect-fired-event", fmt.Sprintf("DISCONNECTED dispatched %d times although the client never connected (Connect had failed, then Close was called)", n))
		atomic.StoreInt32(&r.disc, 0)
		for len(r.discCh) > 0 {
			<-r.discCh
		}
	}
	return len(r.res.Problems) == 0
}

// cancelAtDial: the context is cancelled while Connect is between the dial and its return.  Whatever
// Connect answers must be the truth: nil - REGISTER was dispatched once and the connection then ends with
// one DISCONNECTED (the context is done); an error - no event ever, not connected.
func (r *runner) cancelAtDial() {
	s := r.s
	s.Net.OnDial = func(string) (*fakenet.Conn, error) {
		r.cancel()
		return fakenet.NewConn(), nil
	}
	err := r.connect()
	s.Net.OnDial = nil
	if err == nil {
		if n := atomic.LoadInt32(&r.reg); n != 1 {
			r.problem("C06", "register-count", fmt.Sprintf("Connect returned nil, REGISTER was dispatched %d times before it returned", n))
		}
		select {
		case <-r.discCh:
		case <-time.After(r.deadline):
			r.problem("C07", "disconnect-never-completes", "the context was cancelled during Connect, Connect returned nil, but the connection was never torn down")
		}
	} else {
		time.Sleep(150 * time.Millisecond)
		if n, d := atomic.LoadInt32(&r.reg), atomic.LoadInt32(&r.disc); n != 0 || d != 0 {
			r.problem("C06", "failed-connect-fired-event", fmt.Sprintf("Connect returned %q but REGISTER was dispatched %d times and DISCONNECTED %d times", err.Error(), n, d))
		}
	}
	time.Sleep(20 * time.Millisecond)
	if s.C.Connected() {
		r.problem("C06", "connected-after-disconnect", "Connected() is true although the context given to Connect is done (Connect returned "+fmt.Sprint(err)+")")
	}
	if d := atomic.LoadInt32(&r.disc); d > 1 {
		r.problem("C06", "disconnected-count", fmt.Sprintf("DISCONNECTED dispatched %d times", d))
	}
}

// regClose: a REGISTER handler runs on the goroutine that called Connect, not on the event loop: a Close() it
// makes is an ordinary Close.  Connect must return, DISCONNECTED must be delivered once, nothing may be left.
func (r *runner) regClose() {
	s := r.s
	closeRet := make(chan struct{}, 1)
	s.C.HandleFunc(client.REGISTER, func(c *client.Conn, l *client.Line) {
		c.Close()
		closeRet <- struct{}{}
	})
	cerr := make(chan error, 1)
	go func() { cerr <- r.connect() }()
	for _, what := range []string{"Close() called by the REGISTER handler", "DISCONNECTED", "Connect"} {
		var ok bool
		select {
		case <-closeRet:
			ok = what[0] == 'C' && what[1] == 'l'
		case <-r.discCh:
			ok = what == "DISCONNECTED"
		case <-cerr:
			ok = what == "Connect"
		case <-time.After(r.deadline):
			r.problem("C07", "disconnect-never-completes", "a REGISTER handler called Close(): still outstanding after the deadline - "+what+"; library goroutines: "+shortStacks(sess.LibGoroutines()))
			return
		}
		_ = ok
	}
	if g := waitNoInternal(500 * time.Millisecond); len(g) > 0 {
		r.problem("C07", "goroutines-left", "library goroutines remain after the REGISTER handler closed the connection: "+shortStacks(g))
	}
	if d := atomic.LoadInt32(&r.disc); d != 1 {
		r.problem("C06", "disconnected-count", fmt.Sprintf("DISCONNECTED dispatched %d times", d))
	}
}

// eagerReconnect: while connection 1 is being torn down behind a slow foreground handler, another goroutine
// calls Connect as soon as Connected() is false.  Close must return, DISCONNECTED must be delivered once,
// and the second connection must register and carry what is sent on it.
func (r *runner) eagerReconnect(rng *rand.Rand) {
	s := r.s
	if err := r.connect(); err != nil {
		r.res.Skipped = "connect failed: " + err.Error()
		return
	}
	if !s.Welcome("me", r.deadline) {
		r.res.Skipped = "no welcome"
		return
	}
	entered := make(chan struct{})
	var once sync.Once
	s.C.HandleFunc("SLOW", func(c *client.Conn, l *client.Line) {
		once.Do(func() { close(entered) })
		time.Sleep(time.Duration(20+rng.Intn(40)) * time.Millisecond)
	})
	s.Srv.SendLines("SLOW")
	select {
	case <-entered:
	case <-time.After(r.deadline):
		r.res.Skipped = "SLOW handler not reached"
		return
	}
	closed := make(chan struct{})
	if contains(r.sc.Causes, "eof") {
		s.Srv.EOF()
		close(closed)
	} else {
		go func() { s.C.Close(); close(closed) }()
	}
	for t0 := time.Now(); s.C.Connected() && time.Since(t0) < r.deadline; {
		time.Sleep(100 * time.Microsecond)
	}
	cerr := make(chan error, 1)
	go func() { cerr <- r.connect() }()
	select {
	case err := <-cerr:
		if err != nil {
			r.problem("C07", "reconnect-failed", "Connect issued during the teardown returned "+err.Error())
			return
		}
	case <-time.After(r.deadline):
		r.problem("C07", "reconnect-hung", "Connect issued during the teardown did not return: "+shortStacks(sess.LibGoroutines()))
		return
	}
	s.LatestSrv()
	for _, what := range []string{"Close", "DISCONNECTED"} {
		var ch <-chan struct{} = closed
		if what == "DISCONNECTED" {
			ch = r.discCh
		}
		select {
		case <-ch:
		case <-time.After(r.deadline):
			r.problem("C07", "disconnect-never-completes", what+" of the first connection outstanding although a second connection has long been established: "+shortStacks(internalGoroutines()))
			return
		}
	}
	if !s.Welcome("me", r.deadline) {
		r.problem("C07", "fresh-connection-dead", "the connection made during the teardown does not register / answer PING")
		return
	}
	for i := 0; i < 40; i++ {
		s.C.Raw(fmt.Sprintf("PRIVMSG #x :second connection line %d", i))
	}
	if _, ok := s.Srv.WaitLine("PRIVMSG #x :second connection line 39", 0, r.deadline); !ok {
		l, _ := s.Srv.Lines()
		r.problem("C07", "fresh-connection-not-fresh", fmt.Sprintf("lines sent on the second connection did not reach the server (it has %d lines)", len(l)))
	}
	if d := atomic.LoadInt32(&r.disc); d != 1 {
		r.problem("C06", "disconnected-count", fmt.Sprintf("DISCONNECTED dispatched %d times for the first connection", d))
	}
	// leave nothing behind for the next scenario
	go s.C.Close()
	select {
	case <-r.discCh:
	case <-time.After(r.deadline):
		r.problem("C07", "disconnect-never-completes", "Close of the second connection: no DISCONNECTED")
	}
	waitNoInternal(500 * time.Millisecond)
}

func contains(l []string, x string) bool {
	for _, y := range l {
		if y == x {
			return true
		}
	}
	return false
}

// Run executes one scenario.
func Run(sc Scenario, seed int64) *Result {
	res := &Result{Scenario: sc}
	rng := rand.New(rand.NewSource(seed))
	r := &runner{sc: sc, res: res, discCh: make(chan struct{}, 16), recon: make(chan error, 4), bgRets: make(chan time.Duration, 8), over: make(chan struct{})}
	defer close(r.over)
	r.deadline = 5 * time.Second
	if sc.Flood {
		r.deadline = 25 * time.Second
	}
	r.s = sess.New(func(c *client.Config) {
		c.Flood = !sc.Flood
		if sc.ConnectUp {
			// what was negotiated on the live connection must survive a refused Connect as well
			c.EnableCapabilityNegotiation = true
			c.Capabilites = []string{"multi-prefix"}
		}
		if sc.Ping {
			c.PingFreq = 20 * time.Millisecond
		}
	})
	s := r.s
	if !sc.CtxDial {
		s.Net.NoContext = true
	}
	defer s.Net.Release()
	if sc.Tracking {
		s.C.EnableStateTracking()
		s.C.EnableStateTracking() // a second call is a no-op
	}
	c := s.C
	c.HandleFunc(client.REGISTER, func(c *client.Conn, l *client.Line) {
		atomic.AddInt32(&r.reg, 1)
	})
	c.HandleFunc(client.CONNECTED, func(c *client.Conn, l *client.Line) {
		atomic.AddInt32(&r.con, 1)
		if !c.Connected() && atomic.LoadInt32(&r.disc) == 0 && r.cycle == 0 {
			r.problem("C06", "connected-false-in-CONNECTED", "Connected() was false in a CONNECTED handler although no disconnect had begun")
		}
	})
	c.HandleFunc(client.DISCONNECTED, func(c *client.Conn, l *client.Line) {
		up := c.Connected()
		atomic.StoreInt32(&r.stopped, 1)
		r.umu.Lock()
		if r.stale == nil {
			r.stale = map[int]bool{}
		}
		for _, id := range r.returned {
			r.stale[id] = true
		}
		r.returned = r.returned[:0]
		r.umu.Unlock()
		n := atomic.AddInt32(&r.disc, 1)
		if up && !sc.Eager { // (with an eager reconnect the next connection may already be up: the user's own doing)
			r.problem("C06", "connected-true-in-DISCONNECTED", "Connected() was true when the DISCONNECTED handler started")
		}
		r.event(fmt.Sprintf("DISCONNECTED #%d", n))
		if sc.DiscClose {
			done := make(chan struct{})
			go func() { c.Close(); close(done) }()
			select {
			case <-done:
			case <-time.After(r.deadline):
				r.problem("C06", "close-when-disconnected-blocks", "Close() called while the DISCONNECTED handlers run (the client is not connected) did not return: "+shortStacks(sess.LibGoroutines()))
			}
		}
		if sc.Reconnect == "handler" && int(n) <= sc.Cycles {
			atomic.StoreInt32(&r.stopped, 0)
			r.recon <- r.connect()
		}
		r.discCh <- struct{}{}
	})
	// Close from a background handler is inside C07's claim (only foreground and internal handlers wait for themselves)
	c.HandleBG("BGCLOSE", client.HandlerFunc(func(c *client.Conn, l *client.Line) {
		atomic.AddInt32(&r.bgStarted, 1)
		t := time.Now()
		c.Close()
		r.bgRets <- time.Since(t)
	}))
	if sc.BgDisc {
		c.HandleBG(client.DISCONNECTED, client.HandlerFunc(func(c *client.Conn, l *client.Line) { <-r.over }))
	}
	c.HandleFunc("HOLD", func(c *client.Conn, l *client.Line) {
		held, release := r.held, r.release
		close(held)
		if sc.OutBy == "handler" && sc.Out > 0 {
			for i := 0; i < sc.Out; i++ {
				c.Raw(fmt.Sprintf("PRIVMSG #x :handler line %d", i))
			}
		}
		<-release
		r.apiCalls(c)
	})
	c.HandleFunc("FILL", func(c *client.Conn, l *client.Line) {
		atomic.AddInt32(&r.fill, 1)
		r.apiCalls(c)
	})

	if sc.FailFirst != "" && !r.failedConnect() {
		return res
	}
	if sc.CancelAtDial {
		r.cancelAtDial()
		return res
	}
	if sc.RegClose {
		r.regClose()
		return res
	}
	if sc.Eager {
		r.eagerReconnect(rng)
		return res
	}
	var err error
	{
		cerr := make(chan error, 1)
		go func() { cerr <- r.connect() }()
		select {
		case err = <-cerr:
		case <-time.After(r.deadline):
			r.problem("C06", "connect-never-returns", "Connect did not return: "+shortStacks(sess.LibGoroutines()))
			return res
		}
	}
	if err != nil {
		if sc.FailFirst != "" {
			r.problem("C06", "connect-after-failed-connect", "after a Connect that failed ("+sc.FailFirst+") the next Connect returned "+err.Error())
			return res
		}
		res.Skipped = "connect failed: " + err.Error()
		return res
	}
	for r.cycle = 0; ; r.cycle++ {
		if !r.oneGeneration(rng) {
			break
		}
		if r.cycle >= sc.Cycles || sc.Reconnect == "none" {
			break
		}
		// the next generation was (or is now) established
		if sc.Reconnect == "other" {
			atomic.StoreInt32(&r.stopped, 0)
			if err := r.connect(); err != nil {
				r.problem("C07", "reconnect-failed", "Connect after DISCONNECTED returned "+err.Error())
				break
			}
		} else {
			select {
			case err := <-r.recon:
				if err != nil {
					r.problem("C07", "reconnect-failed", "Connect from the DISCONNECTED handler returned "+err.Error())
					return res
				}
			case <-time.After(r.deadline):
				r.problem("C07", "reconnect-hung", "Connect from the DISCONNECTED handler did not return: "+shortStacks(sess.LibGoroutines()))
				return res
			}
			s.LatestSrv()
		}
		r.checkFresh()
		if len(res.Problems) > 0 {
			break
		}
	}
	// final teardown so that nothing is left behind for the next scenario
	done := make(chan struct{})
	go func() { s.C.Close(); close(done) }()
	select {
	case <-done:
	case <-time.After(2 * time.Second):
	}
	return res
}

// checkFresh: the new connection registers, stays up, and the tracker is reset.
func (r *runner) checkFresh() {
	s := r.s
	srv := s.Srv
	if _, ok := srv.WaitLine("USER ", 0, r.deadline); !ok {
		l, _ := srv.Lines()
		r.problem("C07", "no-registration-after-reconnect", fmt.Sprintf("the reconnected client did not send NICK/USER on the new socket (closed=%v, lines=%q)", srv.IsClosed(), l))
		return
	}
	l, _ := srv.Lines()
	// a line whose Raw call had returned before the previous connection's DISCONNECTED handler started was
	// accepted by that connection: it must not come out of the new one. (A user call made after that may
	// legitimately land anywhere on the new connection, even ahead of NICK/USER.)
	r.umu.Lock()
	for _, x := range l {
		var id int
		if n, _ := fmt.Sscanf(x, "PRIVMSG #x :user line %d", &id); n == 1 && r.stale[id] {
			r.problem("C07", "fresh-connection-not-fresh", fmt.Sprintf("the new connection carries %q, a line accepted by the previous connection before its DISCONNECTED was dispatched", x))
			break
		}
	}
	r.umu.Unlock()
	if n := count(l, "NICK "); n != 1 {
		r.problem("C18", "registration-burst", fmt.Sprintf("NICK sent %d times on the new socket: %q", n, l))
	}
	// it must stay up: nothing ended it
	if !r.sc.Storm {
		time.Sleep(30 * time.Millisecond)
	}
	if srv.IsClosed() || !s.C.Connected() {
		r.problem("C07", "fresh-connection-torn-down", fmt.Sprintf("the new connection was closed although nothing ended it (socket closed=%v Connected()=%v)", srv.IsClosed(), s.C.Connected()))
		return
	}
	if !s.Welcome("me", r.deadline) {
		r.problem("C07", "fresh-connection-dead", "the new connection does not answer PING after the welcome")
		return
	}
	if r.sc.Tracking {
		st := s.C.StateTracker()
		if st == nil || st.Me() == nil {
			r.problem("C07", "tracker-not-reset", "no tracker / Me() nil after reconnect")
		} else if st.GetChannel("#keep") != nil || st.GetNick("other") != nil {
			r.problem("C07", "tracker-not-reset", "the tracker still holds state of the previous connection")
		}
	}
}

func count(l []string, prefix string) int {
	n := 0
	for _, x := range l {
		if strings.HasPrefix(x, prefix) {
			n++
		}
	}
	return n
}

// oneGeneration builds the backlog, strikes the causes, checks the teardown.
func (r *runner) oneGeneration(rng *rand.Rand) bool {
	sc, s := r.sc, r.s
	srv := s.Srv
	regBefore, discBefore := atomic.LoadInt32(&r.reg), atomic.LoadInt32(&r.disc)
	if int(regBefore) != r.cycle+1 {
		r.problem("C06", "register-count", fmt.Sprintf("REGISTER dispatched %d times after %d successful Connect calls", regBefore, r.cycle+1))
	}
	if !s.Welcome("me", r.deadline) {
		r.res.Skipped = "registration did not complete"
		return false
	}
	if sc.Tracking && sc.ID%2 == 0 {
		srv.SendLines(":me!ident@client.host JOIN #keep", ":irc 353 me = #keep :me @other")
		s.Sync(r.deadline)
	}
	if sc.ConnectUp {
		srv.SendLines(":irc.example.net CAP * LS :multi-prefix away-notify")
		s.Sync(r.deadline)
		srv.SendLines(":irc.example.net CAP me ACK :multi-prefix")
		s.Sync(r.deadline)
		hadCap := s.C.HasCapability("multi-prefix") && s.C.SupportsCapability("away-notify")
		// must be refused and must not disturb the connection
		if err := s.C.Connect(); err == nil {
			r.problem("C06", "connect-while-connected-accepted", "Connect on a connected client returned nil")
		}
		if atomic.LoadInt32(&r.reg) != regBefore || atomic.LoadInt32(&r.disc) != discBefore {
			r.problem("C06", "refused-connect-fired-events", "a refused Connect dispatched lifecycle events")
		}
		if !s.Sync(2 * time.Second) {
			r.problem("C06", "refused-connect-broke-connection", "after a refused Connect the connection no longer answers PING: "+shortStacks(internalGoroutines()))
			return false
		}
		if hadCap && (!s.C.HasCapability("multi-prefix") || !s.C.SupportsCapability("away-notify")) {
			r.problem("C06", "refused-connect-lost-capabilities", "after a refused Connect HasCapability/SupportsCapability no longer report what was negotiated on the live connection")
		}
	}
	r.held, r.release = make(chan struct{}), make(chan struct{})
	released := false
	rel := func() {
		if !released {
			released = true
			close(r.release)
		}
	}
	defer rel()
	needHold := sc.Handler != "idle" || sc.In > 0 || (sc.OutBy == "handler" && sc.Out > 0)
	if sc.Out > 0 || sc.Handler == "sending" {
		srv.SetBudget(0)
	}
	if needHold {
		srv.SendLines("HOLD")
		select {
		case <-r.held:
		case <-time.After(r.deadline):
			r.res.Skipped = "hold handler not reached"
			return false
		}
	}
	if sc.In > 0 {
		var stream []byte
		for i := 0; i < sc.In; i++ {
			stream = append(stream, fmt.Sprintf("FILL %d\r\n", i)...)
		}
		var cuts []int
		for i := 1; i < sc.Segs; i++ {
			cuts = append(cuts, rng.Intn(len(stream)))
		}
		sort.Ints(cuts)
		srv.SendStream(stream, cuts)
	}
	var userWG sync.WaitGroup
	if sc.OutBy == "user" && sc.Out > 0 {
		userWG.Add(1)
		go func() {
			defer userWG.Done()
			for i := 0; i < sc.Out && atomic.LoadInt32(&r.stopped) == 0; i++ {
				id := int(atomic.AddInt32(&r.useq, 1))
				s.C.Raw(fmt.Sprintf("PRIVMSG #x :user line %d", id))
				r.umu.Lock()
				r.returned = append(r.returned, id)
				r.umu.Unlock()
			}
		}()
	}
	// let the queues fill (only widens the window; no verdict depends on it)
	time.Sleep(time.Duration(3+rng.Intn(5)) * time.Millisecond)
	if sc.Handler == "idle" || (sc.Handler == "running" && rng.Intn(2) == 0) {
		rel()
		if sc.Handler == "idle" && sc.In == 0 {
			time.Sleep(2 * time.Millisecond)
		}
	}
	// strike
	start := make(chan struct{})
	type closeRet struct {
		d   time.Duration
		err error
	}
	nclose := 0
	for _, c := range sc.Causes {
		switch c {
		case "close":
			nclose++
		case "close2":
			nclose += 2
		case "close3":
			nclose += 3
		}
	}
	nbg := 0
	rets := make(chan closeRet, 8)
	for i := 0; i < nclose; i++ {
		go func() {
			<-start
			t := time.Now()
			err := s.C.Close()
			rets <- closeRet{time.Since(t), err}
		}()
	}
	t0 := time.Now()
	close(start)
	for _, c := range sc.Causes {
		switch c {
		case "eof":
			srv.EOF()
		case "readerr":
			srv.Fail(errors.New("fakenet: connection reset by peer"))
		case "writeerr":
			srv.FailNextWrite(errors.New("fakenet: broken pipe"))
			srv.SetBudget(-1)
			// make sure something gets written
			go func() { defer func() { recover() }(); s.C.Raw("PING :provoke") }()
		case "cancel":
			r.cancel()
		case "bgclose":
			nbg++
			srv.SendLines("BGCLOSE")
		}
	}
	_ = nbg
	if sc.Handler == "running" || sc.Handler == "sending" {
		time.Sleep(time.Duration(1+rng.Intn(4)) * time.Millisecond)
		rel()
	}
	// (1) every Close returns, (2) DISCONNECTED is delivered - within the deadline
	timeout := time.After(r.deadline)
	gotDisc := false
	for got := 0; got < nclose || !gotDisc || atomic.LoadInt32(&r.bgDone) < atomic.LoadInt32(&r.bgStarted); {
		select {
		case cr := <-rets:
			got++
			if ms := float64(cr.d) / 1e6; ms > r.res.CloseMs {
				r.res.CloseMs = ms
			}
		case d := <-r.bgRets:
			atomic.AddInt32(&r.bgDone, 1)
			if ms := float64(d) / 1e6; ms > r.res.CloseMs {
				r.res.CloseMs = ms
			}
		case <-r.discCh:
			gotDisc = true
		case <-timeout:
			dump := shortStacks(internalGoroutines())
			kind := "disconnect-never-completes"
			detail := fmt.Sprintf("%.1fs after the cause: Close returned %d/%d, DISCONNECTED delivered=%v, Connected()=%v; library goroutines: %s",
				time.Since(t0).Seconds(), got, nclose, gotDisc, connectedNoBlock(s.C), dump)
			r.problem("C07", kind, detail)
			// unblock whatever we can and give up on this scenario
			srv.SetBudget(-1)
			rel()
			return false
		}
	}
	// A user goroutine that is inside Raw when the connection goes away may stay
	// blocked on the dead queue (sends after the disconnect are outside the
	// claim): do not wait for it for ever.
	uw := make(chan struct{})
	go func() { userWG.Wait(); close(uw) }()
	select {
	case <-uw:
	case <-time.After(100 * time.Millisecond):
	}
	// (3) exactly one DISCONNECTED for this generation
	time.Sleep(5 * time.Millisecond)
	extra := 0
	for {
		select {
		case <-r.discCh:
			extra++
			continue
		default:
		}
		break
	}
	if r.sc.Reconnect != "handler" {
		if d := atomic.LoadInt32(&r.disc) - discBefore; d != 1 {
			r.problem("C06", "disconnected-count", fmt.Sprintf("DISCONNECTED dispatched %d times for one connection", d))
		}
		if s.C.Connected() {
			r.problem("C06", "connected-after-disconnect", "Connected() is true after DISCONNECTED")
		}
		// (4) nothing of the connection remains
		if g := waitNoInternal(2 * time.Second); len(g) > 0 {
			r.problem("C07", "goroutines-left", "library goroutines remain after DISCONNECTED: "+shortStacks(g))
		}
		if !srv.IsClosed() {
			r.problem("C07", "socket-left-open", "the socket was not closed by the disconnect")
		}
	} else if extra > 0 && r.cycle >= sc.Cycles {
		r.problem("C06", "disconnected-count", fmt.Sprintf("%d extra DISCONNECTED events", extra))
	}
	return true
}

// connectedNoBlock samples Connected() without risking to block forever on mu.
func connectedNoBlock(c *client.Conn) string {
	ch := make(chan bool, 1)
	go func() { ch <- c.Connected() }()
	select {
	case v := <-ch:
		return fmt.Sprint(v)
	case <-time.After(200 * time.Millisecond):
		return "blocked (mu is held)"
	}
}

// ---- scenario families ---------------------------------------------------------

// Families returns the scenario list of a tier; thorough is a superset.
func Families(tier string, rng *rand.Rand) []Scenario {
	cap := qcap
	var res []Scenario
	add := func(s Scenario) {
		if s.Segs == 0 {
			s.Segs = 1
		}
		if s.OutBy == "" {
			s.OutBy = "none"
		}
		if s.Handler == "" {
			s.Handler = "idle"
		}
		if s.Reconnect == "" {
			s.Reconnect = "none"
		}
		s.ID = len(res)
		res = append(res, s)
	}
	backlogs := []int{0, cap, 2*cap + 2, 300}
	causes := [][]string{{"close"}, {"eof"}, {"cancel"}}
	if tier == "thorough" {
		backlogs = []int{0, 1, cap - 1, cap, cap + 1, 2 * cap, 2*cap + 1, 2*cap + 2, 3 * cap, 300, 700}
		causes = [][]string{{"close"}, {"close3"}, {"eof"}, {"readerr"}, {"writeerr"}, {"cancel"}}
	}
	// inbound backlog x cause
	for _, b := range backlogs {
		for _, c := range causes {
			add(Scenario{In: b, Segs: 1 + b/40, Causes: c, Handler: "running"})
		}
	}
	// outbound backlog (handler blocked in a send / user goroutine) x cause
	for _, b := range backlogs[1:] {
		for _, c := range causes {
			add(Scenario{Out: b, OutBy: "handler", Handler: "sending", Causes: c})
			if tier == "thorough" {
				add(Scenario{Out: b, OutBy: "user", Causes: c, In: cap})
			}
		}
	}
	// handlers that use the accessors while the disconnect is in progress
	for _, c := range causes {
		add(Scenario{In: cap + 5, Segs: 2, Causes: c, Handler: "running", Calls: "me", Tracking: c[0] != "close"})
		add(Scenario{In: cap + 5, Segs: 2, Causes: c, Handler: "running", Calls: "connected"})
	}
	// both
	add(Scenario{In: 2*cap + 2, Out: 2*cap + 2, OutBy: "handler", Handler: "sending", Causes: []string{"close"}})
	add(Scenario{In: 300, Out: 300, OutBy: "handler", Handler: "sending", Causes: []string{"cancel"}})
	// every single cause on an idle connection, with the configuration bits
	single := [][]string{{"close"}, {"close2"}, {"eof"}, {"readerr"}, {"writeerr"}, {"cancel"}}
	for i, c := range single {
		add(Scenario{Causes: c})
		add(Scenario{Causes: c, Tracking: true, Ping: i%2 == 0, CtxDial: true})
	}
	// coincidences
	co := [][]string{{"close", "eof"}, {"eof", "writeerr"}, {"cancel", "eof"}, {"close2", "cancel"}, {"readerr", "writeerr"}, {"close", "writeerr"}}
	for _, c := range co {
		add(Scenario{Causes: c, In: 3})
		if tier == "thorough" {
			add(Scenario{Causes: c, In: cap + 1, Out: cap + 1, OutBy: "handler", Handler: "sending", Tracking: true, Ping: true})
		}
	}
	// refused connect
	add(Scenario{ConnectUp: true, Causes: []string{"close"}})
	add(Scenario{ConnectUp: true, Causes: []string{"eof"}, Tracking: true, In: 5})
	// reconnect
	for _, rc := range []string{"handler", "other"} {
		for _, c := range [][]string{{"close"}, {"eof"}, {"cancel"}} {
			cyc := 3
			if tier == "thorough" {
				cyc = 12
			}
			add(Scenario{Reconnect: rc, Cycles: cyc, Causes: c, Tracking: c[0] != "close"})
			add(Scenario{Reconnect: rc, Cycles: 2, Causes: c, In: cap + 3, Handler: "running", Tracking: true})
		}
	}
	// storms: many cycles in which several causes strike at the same instant (races between closers)
	storm := 150
	if tier == "thorough" {
		storm = 1500
	}
	add(Scenario{Reconnect: "other", Cycles: storm, Storm: true, Causes: []string{"close3", "close3", "close2", "cancel"}})
	add(Scenario{Reconnect: "other", Cycles: storm, Storm: true, Causes: []string{"cancel"}})
	add(Scenario{Reconnect: "other", Cycles: storm / 3, Storm: true, Causes: []string{"cancel"}, In: 3})
	add(Scenario{Reconnect: "other", Cycles: storm, Storm: true, Causes: []string{"close3", "eof"}})
	add(Scenario{Reconnect: "other", Cycles: storm / 2, Storm: true, Causes: []string{"close2", "writeerr", "cancel"}, Ping: true})
	// Close on a client that is not connected does nothing - also from inside the DISCONNECTED handler
	for _, c := range []string{"close", "eof", "cancel", "writeerr"} {
		add(Scenario{Causes: []string{c}, In: 5, DiscClose: true, CtxDial: c == "cancel"})
	}
	add(Scenario{Causes: []string{"eof"}, DiscClose: true, Reconnect: "handler", Cycles: 2})
	add(Scenario{Causes: []string{"close"}, DiscClose: true, Reconnect: "other", Cycles: 2})
	// Close called by a background handler; a background DISCONNECTED handler of an earlier connection still running
	add(Scenario{Causes: []string{"bgclose"}, In: 3})
	add(Scenario{Causes: []string{"bgclose", "eof"}, Out: cap + 5, OutBy: "handler", Handler: "sending"})
	add(Scenario{Causes: []string{"bgclose"}, Reconnect: "other", Cycles: 2})
	add(Scenario{Causes: []string{"close"}, BgDisc: true, Reconnect: "other", Cycles: 2})
	add(Scenario{Causes: []string{"eof"}, BgDisc: true, Reconnect: "handler", Cycles: 3, In: 5})
	// the context is cancelled while Connect is in progress; a Connect issued while the teardown is still waiting
	add(Scenario{Causes: []string{"cancel"}, CtxDial: true, CancelAtDial: true})
	add(Scenario{Causes: []string{"cancel"}, CtxDial: true, CancelAtDial: true, Tracking: true, Ping: true})
	add(Scenario{Causes: []string{"close"}, RegClose: true})
	add(Scenario{Causes: []string{"close"}, RegClose: true, Tracking: true, CtxDial: true})
	add(Scenario{Causes: []string{"close"}, Eager: true})
	add(Scenario{Causes: []string{"eof"}, Eager: true, Tracking: true})
	// a Connect that fails (refused dial, failed TLS handshake) before the session proper
	for _, ff := range []string{"dial", "tls"} {
		add(Scenario{Causes: []string{"close"}, In: 3, FailFirst: ff})
		add(Scenario{Causes: []string{"eof"}, FailFirst: ff, Tracking: true, CtxDial: true})
	}
	// user goroutines in the middle of a burst when the connection ends, then a reconnect: nothing queued
	// on the old connection may show up on the new one
	for _, rc := range []string{"handler", "other"} {
		add(Scenario{Reconnect: rc, Cycles: 2, Causes: []string{"eof"}, Out: 300, OutBy: "user"})
		add(Scenario{Reconnect: rc, Cycles: 2, Causes: []string{"close"}, Out: 3 * cap, OutBy: "user", In: 5})
	}
	// flood control on: lines are being rate-limited while the disconnect happens
	add(Scenario{Flood: true, Out: 12, OutBy: "user", Causes: []string{"close"}})
	if tier == "thorough" {
		add(Scenario{Flood: true, Out: 40, OutBy: "handler", Handler: "sending", Causes: []string{"eof"}})
		add(Scenario{Flood: true, Out: 12, OutBy: "user", Causes: []string{"cancel"}})
		// random points of the space
		hs := []string{"idle", "running", "sending"}
		all := append(append([][]string{}, single...), co...)
		for i := 0; i < 150; i++ {
			s := Scenario{In: backlogs[rng.Intn(len(backlogs))], Causes: all[rng.Intn(len(all))], Handler: hs[rng.Intn(3)],
				Tracking: rng.Intn(2) == 0, Ping: rng.Intn(3) == 0, CtxDial: rng.Intn(2) == 0, ConnectUp: rng.Intn(5) == 0}
			s.Segs = 1 + rng.Intn(6)
			s.Calls = []string{"", "", "me", "connected"}[rng.Intn(4)]
			if s.Handler == "sending" {
				s.Out, s.OutBy = backlogs[1+rng.Intn(len(backlogs)-1)], "handler"
			}
			if rng.Intn(4) == 0 {
				s.Reconnect, s.Cycles = []string{"handler", "other"}[rng.Intn(2)], 1+rng.Intn(3)
				// several user goroutines calling Close while the client reconnects
				// may legitimately close the new connection: keep one cause
				s.Causes = single[[]int{0, 2, 3, 5}[rng.Intn(4)]]
			}
			add(s)
		}
	}
	return res
}

// RunLife is the sub-command: runs the scenarios of a tier in this process.
func RunLife(args []string) int {
	fs := flag.NewFlagSet("conn-life", flag.ExitOnError)
	tier := fs.String("tier", "quick", "quick|thorough")
	seed := fs.Int64("seed", 1, "seed")
	only := fs.Int("only", -1, "run only this scenario id")
	from := fs.Int("from", 0, "skip scenarios with a smaller id")
	scen := fs.String("scenario", "", "run the scenario stored in this JSON file (replay)")
	procs := fs.Int("procs", 0, "GOMAXPROCS (0: leave)")
	trace := fs.String("trace", "", "record the hook events of every scenario into this ND-JSON file (for ConnTrace.tla)")
	fs.Parse(args)
	if *procs > 0 {
		runtime.GOMAXPROCS(*procs)
	}
	rng := rand.New(rand.NewSource(*seed))
	probe := sess.New(nil)
	qcap, _ = client.VerifQueueCaps(probe.C)
	if qcap == 0 {
		// queues are created by Connect
		if err := probe.Connect(); err == nil {
			qcap, _ = client.VerifQueueCaps(probe.C)
			closed := make(chan struct{})
			go func() { probe.C.Close(); close(closed) }() // (a Close that hangs is the scenarios' business, not the probe's)
			select {
			case <-closed:
			case <-time.After(2 * time.Second):
			}
		}
	}
	probe.Net.Release()
	if qcap <= 0 {
		fmt.Println("cannot read the queue capacity")
		return 2
	}
	var list []Scenario
	if *scen != "" {
		b, err := os.ReadFile(*scen)
		if err != nil {
			fmt.Println(err)
			return 2
		}
		var r Result
		if json.Unmarshal(b, &r) != nil {
			return 2
		}
		list = []Scenario{r.Scenario}
	} else {
		list = Families(*tier, rng)
	}
	var tr *tracer.Tracer
	if *trace != "" {
		var err error
		if tr, err = tracer.New(*trace); err != nil {
			fmt.Println(err)
			return 2
		}
		defer func() { fmt.Printf("TRACE events=%d\n", tr.Close()) }()
	}
	start := time.Now()
	nprob, failed := 0, 0
	keys := map[string]bool{}
	for _, sc := range list {
		if (*only >= 0 && sc.ID != *only) || sc.ID < *from {
			continue
		}
		sb, _ := json.Marshal(sc)
		fmt.Println("BEGIN " + string(sb))
		// ConnTrace.tla follows user senders within one connection; a user goroutine that keeps
		// sending across a reconnect, and a Close issued from inside the DISCONNECTED handler, are
		// checked by the scenario's own oracle only
		traced := tr != nil && !(sc.OutBy == "user" && sc.Reconnect != "none" && sc.Reconnect != "") && !sc.DiscClose && sc.FailFirst == "" && !contains(sc.Causes, "bgclose") && !sc.BgDisc && !sc.CancelAtDial && !sc.Eager && !sc.RegClose
		if traced {
			tr.Reset(qcap, sc.Ping)
		}
		res := Run(sc, *seed*7919+int64(sc.ID))
		if traced {
			waitNoInternal(500 * time.Millisecond)
			tr.Pause()
		}
		keys[sc.Key()] = true
		if len(res.Problems) > 0 || res.Skipped != "" {
			nprob += len(res.Problems)
		}
		b, _ := json.Marshal(res)
		fmt.Println("RESULT " + string(b))
		if len(res.Problems) > 0 {
			failed++
		}
		if failed >= 8 {
			// enough evidence: every further failing scenario costs its deadline
			b, _ := json.Marshal(map[string]interface{}{"scenarios": len(keys), "stopped_at": sc.ID, "problems": nprob, "qcap": qcap, "wall_s": time.Since(start).Seconds()})
			fmt.Println("SUMMARY " + string(b))
			return 1
		}
		if len(res.Problems) > 0 {
			// a stuck scenario may leave blocked goroutines behind; they must not be
			// charged to the next one: wait for them or mark the run as tainted
			if g := waitNoInternal(500 * time.Millisecond); len(g) > 0 {
				fmt.Println("TAINTED leftover goroutines after a failed scenario; remaining scenarios need a fresh process")
				b, _ := json.Marshal(map[string]interface{}{"scenarios": len(keys), "stopped_at": sc.ID, "tainted": true, "qcap": qcap, "wall_s": time.Since(start).Seconds()})
				fmt.Println("SUMMARY " + string(b))
				return 4
			}
		}
	}
	b, _ := json.Marshal(map[string]interface{}{"scenarios": len(list), "distinct_classes": len(keys), "problems": nprob, "qcap": qcap, "wall_s": time.Since(start).Seconds()})
	fmt.Println("SUMMARY " + string(b))
	if nprob > 0 {
		return 1
	}
	return 0
}

var _ = fakenet.ErrClosed
